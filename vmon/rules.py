"""Rule ASTs, their rendering into every rule-syntax flavour, and the reference
("plain rule-by-rule") matcher used by C01, C02, C11 and C19.

An AST is a list of items
    ['lit', text]                       literal text (never contains { < : or CR)
    ['wild', name|None, filter|None, arg|None]
with filter in None, 'int', 'float', 're', 'path'.  The reference never parses rule text:
it walks the AST, so ombott's rule parser is part of what is checked.
"""
import re

REGEXES = [r'[a-z]*', r'\d*', r'[a-c]+', r'\d{2}', r'a|ab', r'[^/]*x', r'(a|b)c', 'é+', r'[a-z]+?(?=l)', r'\w+\.\w+', r'[^/]*',
           r'-?\d+', r'-?\d+(\.\d+)?', '.+$',
           # context-sensitive at their start: a filter sees the rest of the path as a string of its own ("matched once at the cursor")
           r'^[a-c]+', r'\b\d+', r'(?<!/)[a-z]+', r'\B7+', r'\A\w+', r'(?<![a-z])x+', r'^\d+$']       # the last three are textually the masks of the int / float / path filters
NAMES = ['x', 'y', 'z', 'id', 'name_1', '_p', 'Q', 'int', 're']
LIT_SEGS = ['a', 'ab', 'abc', 'b', 'a1', 'é', 'a-b', 'a.b', 'c', 'end', '1', 'ba', 'a}', '}}b', 'x>', '}', 'a+b', 'Â£', '£', 'Ã©b']     # 'Â£' is what '£' looks like read as Latin-1


# --------------------------------------------------------------------------
# reference semantics
def _rx(filter_, arg, next_lit):
    if filter_ == 'int':
        return r'-?\d+'
    if filter_ == 'float':
        return r'-?\d+(\.\d+)?'
    if filter_ == 're':
        return arg
    if filter_ == 'path':
        return ('.+(?=%s)' % re.escape(next_lit)) if next_lit else '.+$'
    raise ValueError(filter_)


_rx_cache = {}


def compile_ast(ast):
    """-> list of ('lit', text) | ('wild', name, filter, compiled_regex|None)"""
    out = []
    for k, it in enumerate(ast):
        if it[0] == 'lit':
            out.append(('lit', it[1]))
        else:
            _, name, filt, arg = it
            rx = None
            if filt:
                nxt = ast[k + 1][1] if k + 1 < len(ast) and ast[k + 1][0] == 'lit' else ''
                src = _rx(filt, arg, nxt)
                rx = _rx_cache.get(src)
                if rx is None:
                    rx = _rx_cache[src] = re.compile(src)
            out.append(('wild', name, filt, rx))
    return out


def match(cast, s, allow_empty, trace=None):
    """Plain matcher: walk the compiled AST over s (the path without leading/trailing
    separators).  -> dict of named wildcards (converted) or None.
    trace (optional list) receives (item_index, cursor, end) per wildcard."""
    i = 0
    kw = {}
    n = len(s)
    for k, it in enumerate(cast):
        if it[0] == 'lit':
            t = it[1]
            if not s.startswith(t, i):
                return None
            i += len(t)
        else:
            _, name, filt, rx = it
            if rx is None:
                j = s.find('/', i)
                if j < 0:
                    j = n
                val = s[i:j]
            else:
                m = rx.match(s[i:])
                if m is None:
                    return None
                val = m.group()
                j = i + m.end()
            if j == i and not allow_empty and (rx is None or j == n):
                # the statement is silent about a *plain* wildcard capturing nothing, and about any wildcard that is left with nothing
                # at the end of the path; a filter that accepts the empty text in the middle of a path has accepted it
                return None
            if filt == 'int':
                val = int(val)
            elif filt == 'float':
                val = float(val)
            if name is not None:
                kw[name] = val
            if trace is not None:
                trace.append((k, i, j))
            i = j
    if i != n:
        return None
    return kw


def atoms(ast):
    """Pattern as a sequence: characters of literals, 'W' marker for wildcards."""
    out = []
    for it in ast:
        if it[0] == 'lit':
            out.extend(it[1])
        else:
            out.append(None)      # wildcard
    return tuple(out)


def pattern_key(ast):
    out = []
    for it in ast:
        if it[0] == 'lit':
            out.extend(it[1])
        else:
            out.append(('W', it[2], it[3] if it[2] == 're' else None))
    return tuple(out)


def better(a, b):
    """a, b: atom tuples of two rules that both match.  -> -1 a wins, 1 b wins, 0 unspecified tie
    (one is a prefix of the other: 'rule ends here' vs 'wildcard that matched nothing')."""
    for x, y in zip(a, b):
        if x == y:
            continue
        if x is None:
            return 1
        if y is None:
            return -1
        return 0    # two different literals can not both match; never reached for matching rules
    return 0


def winners(cands):
    """cands: list of (id, atoms).  -> list of ids that are not beaten by any other (len>1 = tie)."""
    out = []
    for i, a in cands:
        if not any(better(b, a) < 0 for j, b in cands if j != i):
            out.append(i)
    return out


# --------------------------------------------------------------------------
# rendering
def render_wild(rng, name, filt, arg, next_is_sep_or_end, flavour=None):
    """One wildcard in a randomly chosen (valid) flavour."""
    if filt is None:
        if name is None:
            # anonymous plain wildcard exists only as a bare ':' at the very end of the rule
            return ':'
        forms = ['<%s>' % name, '{%s}' % name]
        if next_is_sep_or_end:
            forms += [':%s' % name] * 2
        return rng.choice(forms) if flavour is None else forms[flavour % len(forms)]
    n = name or ''
    if filt == 're':
        forms = []
        if name:
            forms += ['<%s.re(%s)>' % (n, arg), '{%s:re(%s)}' % (n, arg), '<%s:re(%s)>' % (n, arg), '{%s.re(%s)}' % (n, arg)]
            if '>' not in arg:
                forms.append('<%s:re:%s>' % (n, arg))
            if '}' not in arg:
                forms.append('{%s:re:%s}' % (n, arg))
        else:
            forms += ['<re(%s)>' % arg, '{re(%s)}' % arg]
            if '>' not in arg:
                forms.append('<:re:%s>' % arg)
            if '}' not in arg:
                forms.append('{:re:%s}' % arg)
    else:
        if name:
            forms = ['<%s:%s>' % (n, filt), '{%s:%s}' % (n, filt), '<%s.%s>' % (n, filt), '<%s.%s()>' % (n, filt),
                     '{%s.%s()}' % (n, filt), '{%s:%s()}' % (n, filt)]
        else:
            forms = ['<:%s>' % filt, '{:%s}' % filt, '<%s()>' % filt, '{%s()}' % filt]
    return rng.choice(forms) if flavour is None else forms[flavour % len(forms)]


def render(rng, ast, flavour=None):
    parts = ['/']
    for k, it in enumerate(ast):
        if it[0] == 'lit':
            parts.append(it[1])
        else:
            nxt = ast[k + 1] if k + 1 < len(ast) else None
            sep_or_end = nxt is None or (nxt[0] == 'lit' and nxt[1].startswith('/'))
            parts.append(render_wild(rng, it[1], it[2], it[3], sep_or_end, flavour))
    return ''.join(parts)


# --------------------------------------------------------------------------
# generation
def normalise(ast):
    """Merge adjacent literals, drop empty ones."""
    out = []
    for it in ast:
        if it[0] == 'lit':
            if not it[1]:
                continue
            if out and out[-1][0] == 'lit':
                out[-1] = ['lit', out[-1][1] + it[1]]
                continue
        out.append(list(it))
    return out


def gen_wild(rng, names_used, anon_ok=True, filters=True):
    filt = None
    arg = None
    if filters:
        r = rng.random()
        if r < 0.12:
            filt = 'int'
        elif r < 0.18:
            filt = 'float'
        elif r < 0.34:
            filt = 're'
            arg = rng.choice(REGEXES)
        elif r < 0.42:
            filt = 'path'
    name = None
    if not (anon_ok and filt and rng.random() < 0.2):
        free = [n for n in NAMES if n not in names_used]
        name = rng.choice(free) if free else 'w%d' % len(names_used)
        names_used.add(name)
    return ['wild', name, filt, arg]


def gen_rule(rng, segs=None, filters=True, max_segs=4):
    segs = segs or LIT_SEGS
    nseg = rng.randint(1, max_segs)
    ast = []
    used = set()
    for si in range(nseg):
        if si:
            ast.append(['lit', '/'])
        shape = rng.choice(['L', 'L', 'L', 'W', 'W', 'LW', 'WL', 'LWL', 'WW', 'WLW'])
        for ch in shape:
            if ch == 'L':
                ast.append(['lit', rng.choice(segs)])
            else:
                ast.append(gen_wild(rng, used, filters=filters))
    if rng.random() < 0.04:
        ast.append(['lit', '/'])       # rule text ending in a separator
    ast = normalise(ast)
    # an anonymous plain wildcard is only expressible at the end
    for k, it in enumerate(ast):
        if it[0] == 'wild' and it[1] is None and it[2] is None and k != len(ast) - 1:
            it[1] = 'anonfix%d' % k
    return ast


def sample_value(rng, filt, arg):
    if filt is None:
        return rng.choice(['x', 'ab', 'a.b', 'é', '12', ' ', 'a\rb', '\r', 'a\nb', 'abc', 'b', '-1', 'a b', '日本', '', 'a:b', 'ü'])
    if filt == 'int':
        return rng.choice(['0', '7', '-12', '007', '42', '٣', '1234567890123456789012', '-0', '+3', '+0'])
    if filt == 'float':
        return rng.choice(['1.5', '-0.25', '3', '0.00001', '12345678901234567890.5', '1.', '-7', '00.50', '+1.5'])
    if filt == 'path':
        return rng.choice(['p/q', 'x', 'a/end/b', 'a//b', 'é/1', 'a/\r', 'end', '/'])
    return rng.choice({
        r'[a-z]*': ['', 'ab', '', 'x1'], r'\d*': ['', '12', '', 'a'],
        r'[a-c]+': ['a', 'abc', 'cab', 'abd'], r'\d{2}': ['12', '007', '1'], r'a|ab': ['a', 'ab'],
        r'[^/]*x': ['x', 'aax', 'a/x'], r'(a|b)c': ['ac', 'bc', 'cc'], 'é+': ['é', 'ééé', 'e'],
        r'[a-z]+?(?=l)': ['al', 'profil', 'l'], r'\w+\.\w+': ['a.b', 'ab.1', 'a.'], r'[^/]*': ['', 'abc', 'a b'],
        r'^[a-c]+': ['abc', 'a', 'cab'], r'\b\d+': ['12', '7'], r'(?<!/)[a-z]+': ['intro', 'a'], r'\B7+': ['77', '7'], r'\A\w+': ['w1', 'é'],
        r'(?<![a-z])x+': ['x', 'xxx'], r'^\d+$': ['12', '7', '1a'],
        r'-?\d+': ['0042', '-7', '12', 'x'], r'-?\d+(\.\d+)?': ['1.50', '-3', '007', '1.'], '.+$': ['a/b', 'x', 'é/1'],
    }.get(arg, ['a']))


def instantiate(rng, ast):
    out = []
    for it in ast:
        if it[0] == 'lit':
            out.append(it[1])
        else:
            out.append(sample_value(rng, it[2], it[3]))
    return ''.join(out)


PATH_ALPHA = ['a', 'b', 'c', '1', '/', '-', '.', 'é', '\r', 'x', '2', 'l', ' ', '+', '}', 'Â£', 'Ã©', '£']


def mutate(rng, s):
    if not s:
        return rng.choice(PATH_ALPHA)
    k = rng.randint(0, len(s))
    op = rng.random()
    if op < 0.3:
        return s[:k] + rng.choice(PATH_ALPHA) + s[k:]
    if op < 0.55:
        return s[:k] + s[k + 1:]
    if op < 0.8:
        return s[:k] + rng.choice(PATH_ALPHA) + s[k + 1:]
    if op < 0.9:
        return s[:k] + '/' + s[k:]
    return s + '/'


def gen_paths(rng, asts, n):
    paths = []
    if asts:
        while len(paths) < n * 0.85:
            ast = rng.choice(asts)
            p = instantiate(rng, ast)
            r = rng.random()
            if r < 0.5:
                paths.append(p)
            elif r < 0.85:
                paths.append(mutate(rng, p))
            else:
                paths.append(mutate(rng, mutate(rng, p)))
    while len(paths) < n:
        paths.append(''.join(rng.choice(PATH_ALPHA) for _ in range(rng.randint(0, 8))))
    rng.shuffle(paths)
    return paths
