"""Virtual time for 'slow peer' workloads.

install() replaces time.monotonic / time.time / time.perf_counter (and their _ns forms) by the real clock plus an
offset that only the harness advances; a stream "stalls for 5 s" by calling advance(5.0).  Installed from a property
module's pre_import(), i.e. before the code under test is imported, so `from time import monotonic` binds the virtual
clock as well.  No verdict depends on it: it only lets a workload cross time thresholds inside the code under test
without sleeping.  real_time() is the untouched wall clock.
"""
import time

_off = [0.0]
_real = {}
real_time = time.time


def install():
    if _real:
        return

    def shifted(f):
        return lambda: f() + _off[0]

    def shifted_ns(f):
        return lambda: f() + int(_off[0] * 1e9)
    for n in ('monotonic', 'time', 'perf_counter'):
        _real[n] = getattr(time, n)
        setattr(time, n, shifted(_real[n]))
        _real[n + '_ns'] = getattr(time, n + '_ns')
        setattr(time, n + '_ns', shifted_ns(_real[n + '_ns']))


def installed():
    return bool(_real)


def advance(seconds):
    _off[0] += seconds
