"""WSGI boundary helpers: environ builder, recording/fragmenting input stream,
and a PEP 3333 monitor that plays the server's role around Ombott.__call__."""
import io
import re
import sys


class RecStream:
    """wsgi.input that records every read and fragments the data as told.

    policy: 'full' | 'one' | ('rand', rng) | ('list', [n, n, ...]) | callable(requested, available) -> int
    A read returns between 1 and min(requested, available) bytes while data is
    available (a short read, as a socket-backed stream may do), b'' at EOF.
    """

    def __init__(self, data: bytes, policy='full'):
        self.data = data
        self.pos = 0
        self.policy = policy
        self.reads = []          # (requested, returned_len)
        self._li = 0

    def _take(self, n, avail):
        p = self.policy
        if p == 'full':
            return min(n, avail)
        if p == 'one':
            return 1
        if callable(p):
            return max(1, min(n, avail, p(n, avail)))
        kind, arg = p[0], p[1]
        if kind == 'rand':
            return arg.randint(1, min(n, avail))
        if kind == 'list':
            if self._li < len(arg):
                k = arg[self._li]
                self._li += 1
                return max(1, min(n, avail, k))
            return 1 if (len(p) > 2 and p[2] == 'one') else min(n, avail)
        raise ValueError(p)

    stalls = None       # {index of the read() call: virtual seconds the peer stays silent before it}
    rtype = None        # bytearray: a server whose input stream hands out its receive buffer's type instead of bytes

    def as_bytearray(self):
        self.rtype = bytearray
        flavour_counts['input_stream_returning_bytearray'] = flavour_counts.get('input_stream_returning_bytearray', 0) + 1
        return self

    def as_reused_buffer_view(self):
        # recv_into() a buffer of the server's own and hand out a view of it: the bytes are only good until the next read
        self._rbuf = bytearray(1 << 16)
        self.rtype = self._view
        flavour_counts['input_stream_returning_views_of_one_reused_buffer'] = flavour_counts.get('input_stream_returning_views_of_one_reused_buffer', 0) + 1
        return self

    def _view(self, out):
        if len(out) > len(self._rbuf):
            self._rbuf = bytearray(len(out))
        self._rbuf[:len(out)] = out
        for i in range(len(out), min(len(out) + 8, len(self._rbuf))):
            self._rbuf[i] = 0x5a
        return memoryview(self._rbuf)[:len(out)]

    def read(self, n=-1):
        if self.stalls and len(self.reads) in self.stalls:
            from vmon import vclock
            vclock.advance(self.stalls[len(self.reads)])
        avail = len(self.data) - self.pos
        if n is None or n < 0:
            n_eff = avail
            req = -1
        else:
            n_eff = n
            req = n
        if avail <= 0 or n_eff == 0:
            self.reads.append((req, 0))
            return b''
        k = self._take(n_eff, avail)
        out = self.data[self.pos:self.pos + k]
        self.pos += k
        self.reads.append((req, len(out)))
        return out if self.rtype is None else self.rtype(out)

    def readinto(self, buf):
        # what raw streams (socket.SocketIO) offer beside read(): may fill less than asked for while more is to come
        data = self.read(len(buf))
        self.readinto_calls = getattr(self, 'readinto_calls', 0) + 1
        buf[:len(data)] = bytes(data)
        return len(data)

    def readline(self, n=-1):
        # PEP 3333 requires the method; the code under test is not expected to use it
        self.readline_calls = getattr(self, 'readline_calls', 0) + 1
        out = bytearray()
        while n < 0 or len(out) < n:
            c = self.read(1)
            if not c:
                break
            out += c
            if c == b'\n':
                break
        return bytes(out)

    def readlines(self, hint=-1):
        out = []
        while True:
            ln = self.readline()
            if not ln:
                return out
            out.append(ln)

    def __iter__(self):
        return iter(self.readline, b'')

    @property
    def consumed(self):
        return self.pos

    @property
    def requested_total(self):
        return sum(r for r, _ in self.reads if r > 0)


def wsgi_str(text: str) -> str:
    """What a WSGI server puts into environ for the raw UTF-8 bytes of `text`."""
    return text.encode('utf8', 'surrogateescape').decode('latin1')


# What different servers put into environ beside the PEP 3333 keys.  All of it is inert for a correct application:
# the request is defined by the standard keys.  'http10' is a client without a Host header (not in AUTO: it changes
# the redirect code the framework chooses).
FLAVOURS = ('wsgiref', 'gunicorn', 'uwsgi', 'mod_wsgi', 'http10')
AUTO = ('wsgiref', 'gunicorn', 'uwsgi', 'mod_wsgi')
_auto = [True]
_auto_proto = [True]
flavour_counts = {}
TE_SPELLINGS = ['chunked', 'chunked', 'chunked', 'Chunked', 'CHUNKED', 'identity, Chunked', ' chunked ']


def auto_flavours(on):
    _auto[0] = bool(on)


def apply_flavour(env, flavour):
    from urllib.parse import quote
    uri = quote((env.get('SCRIPT_NAME', '') + env.get('PATH_INFO', '')).encode('latin1'), safe="/;=,@+$!*'()~:") or '/'
    if env.get('QUERY_STRING'):
        uri += '?' + env['QUERY_STRING']
    if flavour == 'gunicorn':
        env.update({'wsgi.input_terminated': True, 'RAW_URI': uri, 'REMOTE_ADDR': '10.0.0.7', 'REMOTE_PORT': '51234', 'gunicorn.socket': object(),
                    'SERVER_SOFTWARE': 'gunicorn/21.2.0'})
    elif flavour == 'uwsgi':
        env.update({'REQUEST_URI': uri, 'uwsgi.version': b'2.0.21', 'uwsgi.node': b'node1', 'DOCUMENT_ROOT': '/var/www', 'REMOTE_ADDR': '10.0.0.7',
                    'uwsgi.core': 0})
    elif flavour == 'mod_wsgi':
        env.update({'REQUEST_URI': uri, 'mod_wsgi.version': (4, 9, 4), 'wsgi.input_terminated': True, 'SCRIPT_FILENAME': '/srv/app.wsgi',
                    'REQUEST_SCHEME': env['wsgi.url_scheme'], 'CONTEXT_PREFIX': '', 'mod_wsgi.script_name': env.get('SCRIPT_NAME', ''),
                    'mod_wsgi.path_info': env.get('PATH_INFO', ''), 'GATEWAY_INTERFACE': 'CGI/1.1', 'apache.version': (2, 4, 57)})
    elif flavour == 'http10':
        host = env.pop('HTTP_HOST', None)
        env['SERVER_PROTOCOL'] = 'HTTP/1.0'
        if host:
            name, _, port = host.partition(':')
            env['SERVER_NAME'] = name
            env['SERVER_PORT'] = port or ('443' if env['wsgi.url_scheme'] == 'https' else '80')
    flavour_counts[flavour] = flavour_counts.get(flavour, 0) + 1
    return env


class RecBytesIO(io.BytesIO):
    """A real io.BytesIO as wsgi.input (what wsgiref-style test clients and some servers hand over), possibly positioned past 0
    (a connection buffer holding a pipelined earlier request); records the sizes asked for."""

    def __init__(self, data, start=0):
        super().__init__(data)
        self.seek(start)
        self.start = start
        self.reads = []          # (requested, returned_len), as RecStream records them

    def read(self, n=-1):
        out = super().read(n)
        self.reads.append((n if n is not None and n >= 0 else -1, len(out)))
        return out

    @property
    def consumed(self):
        return self.tell() - self.start


def make_environ(method='GET', path='/', qs='', headers=None, body=None, stream=None,
                 content_length='auto', content_type=None, chunked=False, raw_path=None,
                 extra=None, file_wrapper=False, flavour=None, script_name=''):
    env = {
        'REQUEST_METHOD': method,
        'SCRIPT_NAME': script_name,
        'PATH_INFO': raw_path if raw_path is not None else wsgi_str(path),
        'QUERY_STRING': qs,
        'SERVER_NAME': 'testserver',
        'SERVER_PORT': '80',
        'SERVER_PROTOCOL': 'HTTP/1.1',
        'wsgi.version': (1, 0),
        'wsgi.url_scheme': 'http',
        'wsgi.errors': io.StringIO(),
        'wsgi.multithread': True,
        'wsgi.multiprocess': False,
        'wsgi.run_once': False,
    }
    if stream is None:
        stream = RecStream(body or b'')
    env['wsgi.input'] = stream
    if content_length == 'auto':
        if body is not None and not chunked:
            env['CONTENT_LENGTH'] = str(len(body))
    elif content_length is not None:
        env['CONTENT_LENGTH'] = str(content_length)
    if content_type is not None:
        env['CONTENT_TYPE'] = content_type
    if chunked:
        # transfer-coding names are case-insensitive, and 'chunked' may be the last of several codings a front end already undid
        spell = TE_SPELLINGS[(len(path) + len(qs) + len(content_type or '') + len(body or b'') + len(getattr(stream, 'data', b'') or b'')) % len(TE_SPELLINGS)]
        env['HTTP_TRANSFER_ENCODING'] = spell
        if spell != 'chunked':
            flavour_counts['transfer_encoding_spelled_otherwise'] = flavour_counts.get('transfer_encoding_spelled_otherwise', 0) + 1
    for k, v in (headers or {}).items():
        env['HTTP_' + k.upper().replace('-', '_')] = v
    if file_wrapper:
        env['wsgi.file_wrapper'] = FileWrapper
    if flavour is None and _auto[0]:
        # a function of the request itself, so that a replayed witness meets the same server
        h = len(env['PATH_INFO']) + len(qs) + len(method) + len(headers or ()) + (len(body) if body else 0)
        h += len(getattr(stream, 'data', b'')) + len(env.get('CONTENT_LENGTH', '')) * 3 + len(content_type or '') + sum(len(str(v)) for v in (headers or {}).values())
        flavour = AUTO[h % len(AUTO)]
        # ... and the protocol version the server reports: what a request means does not depend on it
        # (the framework only picks 302 instead of 303 for redirect() when it is not HTTP/1.1)
        proto = ('HTTP/1.1', 'HTTP/1.1', 'HTTP/1.0', 'HTTP/1.1', 'HTTP/2.0', 'HTTP/1.1', 'HTTP/1.1')[(h // len(AUTO)) % 7]
        if proto != 'HTTP/1.1' and _auto_proto[0]:
            env['SERVER_PROTOCOL'] = proto
            flavour_counts['protocol_' + proto] = flavour_counts.get('protocol_' + proto, 0) + 1
    if flavour:
        apply_flavour(env, flavour)
    if extra:
        env.update(extra)
    return env


class NarrowLog(io.StringIO):
    """A wsgi.errors stream the way a server with an ASCII (or other narrow) error log provides it: text it cannot encode is refused."""

    def __init__(self, encoding='ascii'):
        super().__init__()
        self.encoding_ = encoding

    def write(self, s):
        s.encode(self.encoding_)
        return super().write(s)


class FileWrapper:
    """A server-side wsgi.file_wrapper."""

    def __init__(self, filelike, blksize=8192):
        self.filelike = filelike
        self.blksize = blksize
        if hasattr(filelike, 'close'):
            self.close = filelike.close

    def __iter__(self):
        return self

    def __next__(self):
        data = self.filelike.read(self.blksize)
        if data:
            return data
        raise StopIteration


_STATUS_RE = re.compile(r'^\d{3} \S.*$|^\d{3} $')


class Result:
    __slots__ = ('status', 'code', 'headers', 'body', 'chunks', 'sr_calls', 'problems', 'escaped',
                 'errors', 'exc_info_given', 'closed', 'env', 'iterable')

    def header(self, name, default=None):
        for k, v in self.headers or ():
            if k.lower() == name.lower():
                return v
        return default

    def header_all(self, name):
        return [v for k, v in self.headers or () if k.lower() == name.lower()]

    def key(self):
        """Comparable summary of the complete response."""
        return (self.status, tuple(sorted(self.headers or ())), self.body)


def call_app(app, env, consume=True):
    """Call the WSGI app the way a server would and record everything a
    PEP 3333 validator would look at.  Never raises: an exception escaping the
    application is recorded in .escaped."""
    r = Result()
    r.status = None
    r.code = None
    r.headers = None
    r.body = b''
    r.chunks = []
    r.sr_calls = 0
    r.problems = []
    r.escaped = None
    r.exc_info_given = False
    r.closed = None
    r.env = env
    r.iterable = None
    pb = r.problems
    errstream = env['wsgi.errors']      # middleware may replace the environ entry

    def start_response(status, headers, exc_info=None):
        r.sr_calls += 1
        if exc_info is not None:
            r.exc_info_given = True
        elif r.sr_calls > 1:
            pb.append('start_response called again without exc_info')
        if type(status) is not str:
            pb.append(f'status is {type(status).__name__}, not str')
        elif not _STATUS_RE.match(status) or len(status) < 4:
            pb.append(f'malformed status line {status!r}')
        else:
            try:
                status.encode('latin1')
            except UnicodeError:
                pb.append('status line not latin-1')
            if any(c in status for c in '\r\n\0'):
                pb.append('control character in status line')
        if type(headers) is not list:
            pb.append(f'headers is {type(headers).__name__}, not list')
        for item in headers:
            if type(item) is not tuple or len(item) != 2:
                pb.append(f'header item is not a 2-tuple: {item!r}')
                continue
            k, v = item
            if type(k) is not str or type(v) is not str:
                pb.append(f'header name/value not str: {item!r}')
                continue
            if not k or re.search(r'[\s:\0]', k) or k[-1] in '-_':
                pb.append(f'bad header name {k!r}')
            try:
                k.encode('latin1'), v.encode('latin1')
            except UnicodeError:
                pb.append(f'header not latin-1 encodable: {k!r}')
            if re.search(r'[\r\n\0]', v) or re.search(r'[\r\n\0]', k):
                pb.append(f'control character in header {k!r}: {v!r}')
            if k.lower() == 'status':
                pb.append('Status header present')
        r.status = status
        try:
            r.code = int(status[:3])
        except Exception:
            r.code = None
        r.headers = list(headers)

        def write(data):
            pb.append('write() callable used')
        return write

    try:
        it = app(env, start_response)
    except BaseException as e:   # noqa
        r.escaped = e
        r.errors = errstream.getvalue()
        return r
    r.iterable = it
    if it is None:
        pb.append('application returned None')
        r.errors = errstream.getvalue()
        return r
    if isinstance(it, (str, bytes)):
        pb.append('application returned a bare string')
    if not consume:
        r.errors = errstream.getvalue()
        return r
    try:
        for chunk in it:
            if type(chunk) is not bytes:
                pb.append(f'non-bytes item yielded: {type(chunk).__name__}')
                continue
            if r.sr_calls == 0:
                pb.append('body item produced before start_response')
            r.chunks.append(chunk)
    except BaseException as e:   # noqa
        r.escaped = e
    finally:
        close = getattr(it, 'close', None)
        if close is not None:
            try:
                close()
                r.closed = True
            except BaseException as e:  # noqa
                r.escaped = r.escaped or e
    r.body = b''.join(r.chunks)
    if r.sr_calls == 0:
        pb.append('start_response never called')
    r.errors = errstream.getvalue()
    return r


def check_framing(r, method, framework_set_length=True):
    """Problems with body/Content-Length consistency of a consumed response."""
    out = []
    if r.code is None:
        return out
    no_body = method == 'HEAD' or r.code in (204, 304) or 100 <= r.code < 200
    if no_body and r.body:
        out.append(f'body of {len(r.body)} bytes on {method} {r.code}')
    cl = r.header_all('Content-Length')
    if len(cl) > 1:
        out.append(f'{len(cl)} Content-Length headers')
    if cl and not no_body and framework_set_length:
        try:
            n = int(cl[0])
        except ValueError:
            out.append(f'Content-Length not an integer: {cl[0]!r}')
        else:
            if n != len(r.body):
                out.append(f'Content-Length {n} but {len(r.body)} body bytes')
    return out


def chunk_encode(payload: bytes, rng=None, sizes=None):
    """A legal chunked transfer encoding of `payload` (plain: lower-case sizes, no extensions,
    no trailers).  sizes: explicit chunk sizes (cycled), else random partition, else one chunk."""
    out = bytearray()
    n = len(payload)
    pos = 0
    k = 0
    while pos < n:
        if sizes:
            sz = max(1, sizes[k % len(sizes)])
        elif rng is not None:
            sz = rng.randint(1, max(1, min(n - pos, 4096)))
        else:
            sz = n - pos
        sz = min(sz, n - pos)
        out += b'%x\r\n' % sz + payload[pos:pos + sz] + b'\r\n'
        pos += sz
        k += 1
    out += b'0\r\n\r\n'
    return bytes(out)
