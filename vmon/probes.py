"""Probes built on the interpreter's own instrumentation (no source hooks):

StepCounter   sys.monitoring LINE events inside the code under test: a logical step
              budget (the only 'timing' verdict used anywhere) and anchor-line reach counters
OpenAudit     sys.addaudithook recorder for open() calls, armed only around a call
PickleSpy     rebinding of the name `pickle` inside ombott.common_helpers to a recording proxy
"""
import os
import sys
import inspect

REPO = os.path.realpath(os.environ.get('VERIF_REPO', '/repo'))
OMBOTT_DIR = os.path.join(REPO, 'ombott') + os.sep

_mon = sys.monitoring
TOOL_ID = 3


class BudgetExceeded(BaseException):
    """Derives from BaseException so that no `except Exception` in the code under test can swallow it."""


class StepCounter:
    """Counts statement starts (LINE events) in files under $VERIF_REPO/ombott (plus extra files).
    One instance at a time per process.  Usage:

        sc = StepCounter(); sc.install()
        sc.arm(budget)      # count from 0; raise BudgetExceeded at `budget` (sticky until disarm)
        ... run the code ...
        n = sc.disarm()
    Anchors: sc.anchor(name, func, marker) registers the first source line of `func` containing
    `marker`; hits are counted in sc.hits[name] while armed (or always when count_always).
    """

    def __init__(self, extra_files=()):
        self.steps = 0
        self.budget = None
        self.armed = False
        self.tripped = False
        self.extra = tuple(os.path.realpath(f) for f in extra_files)
        self.hits = {}
        self._anchor_at = {}      # (filename, line) -> name
        self.missing_anchors = []
        self._known = {}

    def _interesting(self, code):
        fn = code.co_filename
        r = self._known.get(fn)
        if r is None:
            rp = os.path.realpath(fn) if not fn.startswith('<') else fn
            r = rp.startswith(OMBOTT_DIR) or rp in self.extra
            self._known[fn] = r
        return r

    def anchor(self, name, func, marker):
        try:
            func = inspect.unwrap(func)
            if isinstance(func, property):
                func = func.fget
            src, first = inspect.getsourcelines(func)
            fn = inspect.getsourcefile(func)
        except (OSError, TypeError):
            self.missing_anchors.append(name)
            return False
        for k, ln in enumerate(src):
            if marker in ln:
                self._anchor_at[(fn, first + k)] = name
                self.hits.setdefault(name, 0)
                return True
        self.missing_anchors.append(name)
        return False

    def _on_line(self, code, line):
        if not self._interesting(code):
            return _mon.DISABLE
        if not self.armed:
            return None
        if self._anchor_at:
            nm = self._anchor_at.get((code.co_filename, line))
            if nm is not None:
                self.hits[nm] += 1
        self.steps += 1
        if self.budget is not None and self.steps > self.budget:
            self.tripped = True
            raise BudgetExceeded(f'step budget {self.budget} exceeded at {code.co_filename}:{line}')

    def install(self):
        _mon.use_tool_id(TOOL_ID, 'vmon-steps')
        _mon.register_callback(TOOL_ID, _mon.events.LINE, self._on_line)
        _mon.set_events(TOOL_ID, _mon.events.LINE)
        return self

    def uninstall(self):
        _mon.set_events(TOOL_ID, 0)
        _mon.register_callback(TOOL_ID, _mon.events.LINE, None)
        _mon.free_tool_id(TOOL_ID)

    def arm(self, budget=None):
        self.steps = 0
        self.budget = budget
        self.tripped = False
        self.armed = True

    def disarm(self):
        self.armed = False
        return self.steps


class OpenAudit:
    """Records the path argument of every open() audit event while armed."""
    _installed = None

    def __init__(self):
        self.armed = False
        self.paths = []
        if OpenAudit._installed is None:
            OpenAudit._installed = self
            sys.addaudithook(OpenAudit._hook)

    @staticmethod
    def _hook(event, args):
        me = OpenAudit._installed
        if me is not None and me.armed and event == 'open':
            me.paths.append(args[0])

    def __enter__(self):
        self.paths = []
        self.armed = True
        return self

    def __exit__(self, *a):
        self.armed = False


def get_open_audit():
    return OpenAudit._installed or OpenAudit()


class PickleSpy:
    """Proxy for the pickle module as seen by ombott.common_helpers: records every loads()."""

    def __init__(self):
        import pickle
        self._real = pickle
        self.loads_calls = []

    def loads(self, data, *a, **kw):
        self.loads_calls.append(bytes(data))
        return self._real.loads(data, *a, **kw)

    def __getattr__(self, name):
        return getattr(self._real, name)

    def install(self):
        import ombott.common_helpers as ch
        if hasattr(ch, 'pickle'):
            ch.pickle = self
        return self

    _global = None

    @classmethod
    def install_global(cls):
        """Replace pickle.loads / pickle.load in the pickle module itself.  Called before ombott is imported, so
        that `from pickle import loads` inside the code under test binds the spy as well."""
        import pickle
        if cls._global is None:
            spy = cls._global = cls()
            real_loads, real_load = pickle.loads, pickle.load

            def loads(data, *a, **kw):
                spy.loads_calls.append(bytes(data))
                return real_loads(data, *a, **kw)

            def load(f, *a, **kw):
                data = f.read()
                spy.loads_calls.append(bytes(data))
                return real_loads(data, *a, **kw)
            spy._real = type('RealPickle', (), {'loads': staticmethod(real_loads), 'dumps': staticmethod(pickle.dumps)})
            pickle.loads, pickle.load = loads, load
            # code that builds its own (restricted) unpickler subclasses pickle.Unpickler: the class it finds records as well
            import io
            real_unpickler = pickle.Unpickler

            class Unpickler(real_unpickler):
                def __init__(self, file, *a, **kw):
                    data = file.read()
                    spy.loads_calls.append(bytes(data))
                    super().__init__(io.BytesIO(data), *a, **kw)
            pickle.Unpickler = Unpickler
        return cls._global
