"""C15 - cookies round-trip; forged signed cookies are never deserialised.

Round trip: response.set_cookie -> the Set-Cookie value in BaseResponse.headerlist -> its
name=value part as the Cookie header of a new request -> Request.get_cookie.
Forgery: every single-byte substitution (16-symbol alphabet; in the thorough tier also every printable ASCII symbol), deletion and truncation of the
returned cookie, signature/payload swaps, length changes, another secret, another name, in
quoted and unquoted transport form, alone and between other cookies.  A pickle spy (the name
`pickle` inside ombott.common_helpers rebound to a recording proxy before any cookie code runs)
observes every call that reaches the unpickler: its argument must be a payload the harness
itself signed with that secret.
"""
import base64
import pickle
from http.cookies import SimpleCookie, CookieError
from vmon.wsgi import make_environ, call_app
from vmon.probes import PickleSpy

RULE = ('roundtrip units: cookie names from the token alphabet x plain values (text with ; , = space quotes backslashes control '
        'characters, Latin-1 and higher code points) and signed values (nested picklable objects) x secrets of any text, through '
        'Response/HTTPResponse objects and through a handler behind Ombott.__call__; tamper units: for each signed cookie every '
        'position x {16 substitution symbols, deletion, truncation} in quoted and unquoted transport form, plus swaps / length changes / '
        'other secret / other name. Non-trivial = a signed cookie, or a plain value needing quoting; distinct = distinct Cookie header.')
PYOPT = {'quick': 1, 'thorough': 1}     # one unit of every kind is also served by an interpreter started with -O (assert statements compiled out)
REQUIRED = ['units_run_under_python_-O', 'signed_cookies_of_kilobytes', 'same_object_signed_in_an_earlier_state', 'cookie_on_a_raised_response_over_one_of_the_application_response', 'tampered_header_put_on_a_request_that_had_read_the_genuine_one', 'cookie_on_a_response_without_body(204/304)', 'set_after_earlier_cookie_operations', 'emitted_by_a_copied_response', 'plain_roundtrips', 'signed_roundtrips', 'quoted_values', 'tamper_reads', 'tamper_substitution', 'tamper_deletion',
            'tamper_truncation', 'tamper_swap', 'tamper_other_secret', 'tamper_other_name', 'unpickler_calls_observed', 'read_as_absent',
            'via_wsgi', 'unquoted_form', 'among_other_cookies']
ASSUMPTIONS = ['cookie names are RFC 6265 tokens accepted by http.cookies; values are non-empty and at most 4096 characters',
               'a transport-only change (the value the standard library parses out of the header is still the signed string) is not an alteration',
               'the standard library cookie parser and pickle are trusted; the spy delegates to the real loads']

SUBST = list('Aa0+/=!?"\\;, \0') + ['%', 'Z'] + ['\xe9', '\x80']      # ... and bytes above 0x7f (the header is Latin-1 text)
SUBST_FULL = [chr(c) for c in range(32, 127)] + ['\0', '\t', '\x7f', '\xe9']      # every printable ASCII symbol and a few others
NAMES = ['s', 'session', 'a', 'id_1', 'X-y', 'tok.en', 'n~m', 'k!', 'UPPER', 'a1b2']
SECRETS = ['k', 'secret', 'sé crèt', '日本', 'with space', 'a' * 64, '!?', '0', '\U0001f511key', 'p@ss;word',
           # long secrets that differ only after the 64th / 128th byte (a shared pepper plus a per-tenant suffix)
           'pepper-' * 9 + 'Ta', 'pepper-' * 9 + 'Tb', 'K' * 64 + '1', 'K' * 64 + '2', 'é' * 32 + 'x', 'é' * 32 + 'y', 'L' * 200 + 'tenant-1', 'L' * 200 + 'tenant-2']
PLAIN = ['/search?q=caf%C3%A9&page=2', '/wiki/%E4%BD%A0%E5%A5%BD', 'name%2Cdate', '100%25', '%', '%%', '%zz', '%41', 'a%20b', '%e9', 'v', 'hello', 'a b', 'a;b', 'a,b', 'a=b', '"quoted"', 'back\\slash', 'tab\there', 'new\nline', 'cr\rlf', 'é', 'ÿ', 'naïve café',
         'ß=ü;ö', '\x7f', '\x01', ' lead', 'trail ', '!notsigned?x', '!?', '?', 'a"b', "it's", '100%', 'x' * 300, '\\', '\\"', '0',
         'Ã©', '€', '日本', 'ключ', '\U0001f600', 'mixé日']
OBJECTS = [1, 'text', None, True, 3.5, ('a', 1), ['l', ['nested', {'k': (1, 2)}]], {'user': 'é', 'roles': ['a', 'b'], 'n': 10**20},
           b'\x00bytes\xff', '', 'x' * 500, {'日本': '語'}, frozenset({1, 2}), [], {}]
SENT = object()
import collections as _co
import datetime as _dt
import decimal as _dec
import enum as _en
import fractions as _fr


Point = _co.namedtuple('Point', 'x y')


class Color(_en.Enum):
    RED = 1
    GREEN = 2


class Cart:
    """an application class of the kind session cookies carry"""

    def __init__(self, items):
        self.items = items

    def __eq__(self, other):
        return type(other) is Cart and other.items == self.items

    def __repr__(self):
        return 'Cart(%r)' % (self.items,)


# "any picklable value": what applications keep in sessions beside the built-in containers
OBJECTS += [_dt.datetime(2024, 2, 29, 12, 30, 15), _dt.date(2031, 1, 1), _dec.Decimal('19.99'), _fr.Fraction(2, 3), _co.OrderedDict([('b', 1), ('a', 2)]), Point(1, -2), Color.GREEN,
            Cart(['book', 3]), {'when': _dt.timedelta(hours=5), 'cart': Cart([]), 'price': _dec.Decimal('0.10')}, (), set(), 0, False, 0.0, b'', bytearray(b'ba'), 2 ** 70, -1, complex(1, 2), range(3)]

COOKIE_OPTIONS = [{}, {}, {'path': '/acc'}, {'max_age': 3600}, {'max_age': _dt.timedelta(hours=1)}, {'expires': 0}, {'expires': _dt.datetime(2031, 5, 4, 3, 2, 1)}, {'expires': 1924992000.5},
                  {'httponly': True, 'secure': True}, {'domain': 'example.com', 'path': '/acc'}, {'samesite': 'lax'}, {'max_age': _dt.timedelta(days=2, seconds=5), 'path': '/acc', 'httponly': True}]


PRIORS = ['none', 'none', 'set_before', 'deleted_before', 'set_then_deleted', 'other_name_before', 'failed_reset_after', 'set_and_looked_at_before', 'deleted_and_looked_at_before']


def apply_prior(resp, prior, name):
    """What the same response saw before the cookie was set: the last set_cookie for a name is the one that counts."""
    if prior in ('set_before', 'set_then_deleted'):
        resp.set_cookie(name, 'earlier value; with "separators"', max_age=5)
    if prior in ('deleted_before', 'set_then_deleted'):
        resp.delete_cookie(name)
    if prior == 'set_and_looked_at_before':
        # something (a logging hook, a debugger, repr) built the header list while the earlier value was set
        resp.set_cookie(name, 'earlier value', max_age=5)
        list(resp.headerlist)
        repr(resp)
    if prior == 'deleted_and_looked_at_before':
        resp.set_cookie(name, 'earlier value')
        list(resp.headerlist)
        resp.delete_cookie(name)
        list(resp.headerlist)
    if prior == 'other_name_before':
        resp.set_cookie('zz' + name if name[:1].isalnum() else 'zzother', 'other')


STATUSES = [200, 200, 204, 304, 302, 404, 500, 201]     # a cookie travels with any response, also with those that carry no body


def mutate_in_place(obj):
    """put a dict / list into an 'earlier state' in place; -> function that restores the present state (in place as well)"""
    if isinstance(obj, dict):
        obj['__earlier__'] = 'state'
        return lambda: obj.pop('__earlier__')
    obj.append('__earlier__')
    return lambda: obj.pop()


def set_and_emit(kind, name, value, secret=None, prior='none', status=200, **opts):
    """-> the Set-Cookie header value as handed to the server (latin-1 form).
    kind 'Response' | 'HTTPResponse' | 'copied' (set on a Response, emitted by its copy: what redirect() does)"""
    from ombott.response import Response, HTTPResponse
    r = HTTPResponse('b') if kind == 'HTTPResponse' else Response()
    apply_prior(r, prior, name)
    if prior == 'signed_before_it_changed':
        # the same (mutable) object was signed a moment ago in an earlier state: what is signed now is what it holds now
        earlier = HTTPResponse('b')
        undo = mutate_in_place(value)
        earlier.set_cookie(name, value, secret=secret, **opts)
        r.set_cookie(name, value, secret=secret, **opts)
        undo()
    r.set_cookie(name, value, secret=secret, **opts)
    if prior in ('failed_reset_after',):
        # the application tries to set the same cookie again with an option http.cookies refuses, and carries on: the cookie stays set
        try:
            r.set_cookie(name, value, secret=secret, no_such_cookie_attribute='x', **opts)
            raise AssertionError('harness: the bogus cookie attribute was accepted')
        except AssertionError:
            raise
        except Exception:  # noqa
            pass
    r.status = status
    if kind == 'copied':
        r = r.copy(cls=HTTPResponse)
    vals = [v for k, v in r.headerlist if k == 'Set-Cookie' and v.startswith(name + '=')]
    if len(vals) != 1:
        raise AssertionError(('one Set-Cookie line per cookie name', vals))
    return vals[0]


def cookie_pair(set_cookie_value):
    """What a browser returns: the name=value part (attributes follow the first ';').
    http.cookies escapes ';' and ',' inside quoted values, so the first ';' ends the pair."""
    return set_cookie_value.split(';', 1)[0]


def new_request(cookie_header):
    import ombott
    return ombott.Request(make_environ('GET', '/', headers={'Cookie': cookie_header}))


def stdlib_value(header, name):
    try:
        m = SimpleCookie(header).get(name)
    except CookieError:
        return None
    return m.value if m is not None else None


def needs_finding_14(value):
    return any(ord(c) > 0xFF for c in value)


def pre_import():
    # before ombott is imported: pickle.loads / pickle.load themselves record their argument
    PickleSpy.install_global()


class Mon:
    """Pickle-spy bookkeeping: payloads the harness signed, per secret."""

    def __init__(self, ctx):
        self.ctx = ctx
        self.spy = PickleSpy.install_global()      # the name `pickle` inside ombott resolves to the patched module
        self.legit = set()

    def sign(self, name, value, secret, kind='Response', prior='none', status=200, **opts):
        sc = set_and_emit(kind, name, value, secret, prior=prior, status=status, **opts)
        self.legit.add(pickle.dumps((name, value), -1))
        return sc

    def check_spy(self, where, wit, expect_calls=None):
        calls = self.spy.loads_calls
        bad = [c for c in calls if c not in self.legit]
        n = len(calls)
        self.ctx.count('unpickler_calls_observed', n)
        del calls[:]
        if bad:
            self.ctx.violation('unpickler-reached-with-bytes-the-application-never-signed', f'{where}: loads({bad[0][:60]!r}...)', wit)
        return n


def roundtrip_unit(ctx, unit):
    import ombott
    rng = ctx.rng
    mon = Mon(ctx)
    app = ombott.Ombott()
    cur = {}
    got = {}

    @app.route('/set')
    def h_set():
        if cur['prior'] == 'raised_over_a_cookie_of_the_response':
            # an earlier cookie of that name sits on the application's response (a hook's anonymous session, say);
            # the handler answers by raising a response that carries the cookie under test: that one is sent
            from ombott import HTTPResponse
            app.response.set_cookie(cur['name'], 'stale value of the response', path='/')
            out = HTTPResponse('set', cur['status'])
            out.set_cookie(cur['name'], cur['value'], secret=cur['secret'], path='/', httponly=True)
            raise out
        apply_prior(app.response, cur['prior'], cur['name'])
        app.response.set_cookie(cur['name'], cur['value'], secret=cur['secret'], path='/', httponly=True)
        if cur['prior'] == 'failed_reset_after':
            try:
                app.response.set_cookie(cur['name'], cur['value'], secret=cur['secret'], path='/', httponly=True, no_such_cookie_attribute='x')
            except Exception:  # noqa
                pass
        app.response.status = cur['status']
        return 'set'

    @app.route('/get')
    def h_get():
        got['v'] = app.request.get_cookie(cur['name'], default=SENT, secret=cur['secret'])
        return 'got'

    for i in range(unit['n']):
        name = rng.choice(NAMES)
        signed = rng.random() < 0.45
        # (an application whose secret is not configured passes '' - as good as none, on the way out and on the way in)
        secret = rng.choice(SECRETS) if signed else (None, None, '', '')[i % 4]
        if not signed and secret is not None:
            ctx.count('plain_cookie_with_an_empty_secret')
        if signed:
            import copy
            value = copy.deepcopy(rng.choice(OBJECTS))
            if rng.random() < 0.3:
                value = {'k': copy.deepcopy(rng.choice(OBJECTS)), 'r': rng.getrandbits(40)}
        else:
            value = rng.choice(PLAIN)
            if rng.random() < 0.4:
                value = rng.choice(PLAIN)[:20] + rng.choice(PLAIN)[:20]
        mode = rng.choice(['object', 'object', 'wsgi'])
        prior = rng.choice(PRIORS)
        if signed and type(value) in (dict, list) and mode == 'object' and rng.random() < 0.5:
            prior = 'signed_before_it_changed'
            ctx.count('same_object_signed_in_an_earlier_state')
        if mode == 'wsgi' and rng.random() < 0.25:
            prior = 'raised_over_a_cookie_of_the_response'
            ctx.count('cookie_on_a_raised_response_over_one_of_the_application_response')
        status = rng.choice(STATUSES)
        if status in (204, 304):
            ctx.count('cookie_on_a_response_without_body(204/304)')
        if prior != 'none':
            ctx.count('set_after_earlier_cookie_operations')
        wit = {'unit': {'kind': 'rt1', 'name': name, 'signed': signed, 'secret': secret, 'value': repr(value), 'mode': mode, 'prior': prior, 'status': status}}
        where = f'{"signed" if signed else "plain"} cookie {name}={value!r} ({mode}, {prior}, status {status})'
        try:
            if mode == 'object':
                kind = rng.choice(['Response', 'HTTPResponse', 'copied'])
                if kind == 'copied':
                    ctx.count('emitted_by_a_copied_response')
                # the attributes a cookie is usually sent with travel beside the value and change nothing about it
                opts = rng.choice(COOKIE_OPTIONS)
                if opts:
                    ctx.count('set_with_cookie_attributes')
                    wit['unit']['options'] = repr(opts)
                if signed:
                    sc = mon.sign(name, value, secret, kind, prior, status, **opts)
                else:
                    sc = set_and_emit(kind, name, value, prior=prior, status=status, **opts)
            else:
                cur.update(name=name, value=value, secret=secret, prior=prior, status=status)
                if signed:
                    mon.legit.add(pickle.dumps((name, value), -1))
                r = call_app(app, make_environ('GET', '/set'))
                ctx.count('via_wsgi')
                scs = [v for v in r.header_all('Set-Cookie') if v.startswith(name + '=')]
                if r.code != status or len(scs) != 1 or r.problems:
                    ctx.violation('set-cookie-not-emitted', f'{where}: {r.status} {scs} {r.problems} {r.errors[-200:]}', wit)
                    continue
                sc = scs[0]
        except Exception as e:  # noqa
            ctx.violation(f'set_cookie-raises-{type(e).__name__}', f'{where}: {e!r}', wit)
            continue
        pair = cookie_pair(sc)
        if '"' in pair:
            ctx.count('quoted_values')
        header = pair
        if rng.random() < 0.4:
            header = 'first=1; ' + pair + '; last="z z"'
            ctx.count('among_other_cookies')
        ctx.case(('rt', header), nontrivial=signed or '"' in pair)
        try:
            if mode == 'object':
                back = new_request(header).get_cookie(name, default=SENT, secret=secret)
            else:
                got.clear()
                r = call_app(app, make_environ('GET', '/get', headers={'Cookie': header}))
                if r.code != 200:
                    ctx.violation('reading-a-returned-cookie-fails', f'{where}: {r.status} {r.errors[-300:]}', wit)
                    continue
                back = got['v']
        except Exception as e:  # noqa
            ctx.violation(f'get_cookie-raises-{type(e).__name__}', f'{where}: Cookie: {header!r}: {e!r}', wit)
            continue
        mon.check_spy(where, wit)
        ctx.count('signed_roundtrips' if signed else 'plain_roundtrips')
        if i % 331 == 0:
            ctx.sample({'name': name, 'value': repr(value)[:60], 'secret': secret, 'Set-Cookie': sc[:120], 'Cookie': header[:120], 'read_back': repr(back)[:60]})
        if back is SENT or back != value or type(back) is not type(value):
            predicted = ''.join(c if ord(c) <= 0xFF else c.encode('utf8').decode('latin1') for c in value) if not signed else None
            if not signed and needs_finding_14(value) and back == predicted:
                ctx.violation('plain-cookie-above-U+00FF-reads-back-as-utf8-bytes-in-latin1',
                              f'{where}: read back {back!r}', wit)
            else:
                ctx.violation('signed-cookie-roundtrip-differs' if signed else 'plain-cookie-roundtrip-differs',
                              f'{where}: Set-Cookie {sc!r} -> Cookie {header!r} -> {("<absent>" if back is SENT else repr(back))}', wit)


def forms_of(pair, name):
    """quoted (as emitted) and unquoted transport form of name=value"""
    out = [('quoted' if '"' in pair else 'as_emitted', pair)]
    val = pair[len(name) + 1:]
    if val.startswith('"') and val.endswith('"') and '\\' not in val:
        out.append(('unquoted', name + '=' + val[1:-1]))
    return out


def tamper_one(ctx, mon, name, value, secret, signed_string, header, what, wit_extra):
    """Read `header` (a tampered Cookie header) back; the cookie must read as absent unless the change
    was transport-only, and the unpickler must not see anything unsigned."""
    wit = {'unit': {'kind': 'tamper1', 'name': name, 'secret': secret, 'header': header, 'what': what, 'value': repr(value)}}
    where = f'{what}: Cookie: {header!r}'
    ctx.count('tamper_reads')
    ctx.case(('t', header, secret), nontrivial=True)
    sv = stdlib_value(header, name)
    unaltered = (sv == signed_string)
    genuine = getattr(mon, 'genuine', None)
    try:
        if genuine is not None and len(header) % 3 == 0:
            # the same request object first carried the genuine cookie (and it was read), then the header was replaced
            # through the request; what counts is the header as it is now
            rq = new_request(genuine)
            first = rq.get_cookie(name, default=SENT, secret=secret)
            mon.check_spy(where + ' (genuine cookie read first)', wit)
            if first != value:
                ctx.violation('unaltered-signed-cookie-not-read-back', f'{where}: genuine {genuine!r} read as {first!r}', wit)
                return
            rq['HTTP_COOKIE'] = header
            ctx.count('tampered_header_put_on_a_request_that_had_read_the_genuine_one')
            wit['unit']['genuine_first'] = genuine
            back = rq.get_cookie(name, default=SENT, secret=secret)
        else:
            back = new_request(header).get_cookie(name, default=SENT, secret=secret)
    except CookieError as e:
        mon.check_spy(where, wit)
        ctx.violation('tampered-cookie-header-raises-CookieError-out-of-request.cookies', f'{where}: {e!r}', wit)
        return
    except Exception as e:  # noqa
        mon.check_spy(where, wit)
        ctx.violation(f'tampered-cookie-raises-{type(e).__name__}', f'{where}: {e!r}', wit)
        return
    n = len(mon.spy.loads_calls)
    mon.check_spy(where, wit)
    if unaltered:
        ctx.count('transport_only_change')
        if back != value:
            ctx.violation('unaltered-signed-cookie-not-read-back', f'{where}: {back!r}', wit)
        return
    if n:
        ctx.violation('altered-signed-cookie-deserialised', f'{where}: unpickler called {n} time(s)', wit)
    if back is not SENT:
        ctx.violation('altered-signed-cookie-not-read-as-absent', f'{where}: read {back!r}', wit)
    else:
        ctx.count('read_as_absent')


def tamper_unit(ctx, unit):
    rng = ctx.rng
    mon = Mon(ctx)
    SUBST = SUBST_FULL if unit.get('alphabet') == 'full' else globals()['SUBST']
    for ci in range(unit['cookies']):
        name = rng.choice(NAMES)
        secret = rng.choice(SECRETS)
        value = rng.choice(OBJECTS[:9])
        if rng.random() < 0.5:
            value = {'uid': rng.getrandbits(24), 'v': value}
        if unit.get('long'):
            # a session object of a few kB (the limit is 4096 characters for the whole signed text): every position is still covered
            size = unit['long'][ci % len(unit['long'])]
            value = {'uid': rng.getrandbits(24), 'notes': ''.join(rng.choice('abcdefghij klmnopqrstuvwxyz0123456789') for _ in range(size)), 'tail': [1, 2, 3]}
            ctx.count('signed_cookies_of_kilobytes')
        sc = mon.sign(name, value, secret)
        pair = cookie_pair(sc)
        signed_string = stdlib_value(pair, name)
        if not (signed_string and signed_string.startswith('!')):
            raise AssertionError(pair)
        mon.genuine = pair
        # sanity: untouched cookie reads back
        if new_request(pair).get_cookie(name, secret=secret) != value:
            raise AssertionError('the untouched signed cookie does not read back')
        mon.check_spy('sanity', None)
        ctx.sample({'cookie': pair, 'value': repr(value), 'secret': secret})
        for form, base in forms_of(pair, name):
            if form == 'unquoted':
                ctx.count('unquoted_form')
            wrap = (lambda h: h) if ci % 2 == 0 else (lambda h: 'a=1; ' + h + '; b=2')
            if ci % 2:
                ctx.count('among_other_cookies')
            start = len(name) + 1
            for pos in range(start, len(base)):
                for c in (SUBST if not unit.get('long') else [SUBST[pos % len(SUBST)], 'A' if base[pos] != 'A' else 'B']):
                    if base[pos] == c:
                        continue
                    t = base[:pos] + c + base[pos + 1:]
                    tamper_one(ctx, mon, name, value, secret, signed_string, wrap(t), f'{form} substitution', None)
                    ctx.count('tamper_substitution')
                t = base[:pos] + base[pos + 1:]
                tamper_one(ctx, mon, name, value, secret, signed_string, wrap(t), f'{form} deletion', None)
                ctx.count('tamper_deletion')
                t = base[:pos]
                tamper_one(ctx, mon, name, value, secret, signed_string, wrap(t), f'{form} truncation', None)
                ctx.count('tamper_truncation')
                # insertion of one symbol
                t = base[:pos] + SUBST[pos % len(SUBST)] + base[pos:]
                tamper_one(ctx, mon, name, value, secret, signed_string, wrap(t), f'{form} insertion', None)
        # structural forgeries
        sig, msg = signed_string[1:].split('?', 1)
        other_value = {'admin': True, 'uid': 0}
        other = stdlib_value(cookie_pair(mon.sign(name, other_value, secret)), name)
        osig, omsg = other[1:].split('?', 1)
        forged_msg = base64.b64encode(pickle.dumps((name, {'forged': 1}), -1)).decode()
        evil = base64.b64encode(b"cos\nsystem\n(S'echo pwned'\ntR.").decode()
        structural = {
            'signature of another cookie': f'!{osig}?{msg}', 'payload of another cookie': f'!{sig}?{omsg}',
            'unsigned forged payload': f'!{sig}?{forged_msg}', 'malicious pickle payload': f'!{sig}?{evil}',
            'empty signature': f'!?{msg}', 'empty signature, forged payload': f'!?{forged_msg}', 'signature shortened': f'!{sig[:-1]}?{msg}',
            'signature prefix only': f'!{sig[:4]}?{msg}', 'signature lengthened': f'!{sig}A?{msg}', 'signature doubled': f'!{sig}{sig}?{msg}',
            'payload lengthened': f'!{sig}?{msg}A', 'payload shortened': f'!{sig}?{msg[:-1]}', 'payload emptied': f'!{sig}?',
            'payload padding stripped': f'!{sig}?{msg.rstrip("=")}', 'second question mark': f'!{sig}??{msg}',
            'no bang': f'{sig}?{msg}', 'lower-cased signature': f'!{sig.lower()}?{msg}', 'non-canonical base64 tail': f'!{sig}?{msg[:-1]}{"B" if msg[-1] != "B" else "C"}',
            'evil payload, signature of evil under empty key':
                '!' + base64.b64encode(__import__('hmac').new(b'', evil.encode(), digestmod='md5').digest()).decode() + '?' + evil,
        }
        for what, val in structural.items():
            if val == signed_string:
                continue
            for hdr in (f'{name}="{val}"', f'{name}={val}'):
                tamper_one(ctx, mon, name, value, secret, signed_string, hdr, what, None)
                ctx.count('tamper_swap')
        # an application without a configured secret (''): whatever arrives is text, nothing is ever deserialised
        evil_hdr = f'{name}="' + structural['evil payload, signature of evil under empty key'] + '"'
        for empty in ('', b'', None):
            try:
                back = new_request(evil_hdr).get_cookie(name, default=SENT, secret=empty)
            except Exception as e:  # noqa
                ctx.violation(f'tampered-cookie-raises-{type(e).__name__}', f'{evil_hdr!r} read with secret {empty!r}: {e!r}', None)
                continue
            n = len(mon.spy.loads_calls)
            mon.check_spy('empty secret', None)
            ctx.count('forged_cookie_read_without_a_secret')
            if n or (back is not SENT and not isinstance(back, str)):
                ctx.violation('unsigned-cookie-deserialised-when-no-secret-is-configured', f'{evil_hdr[:80]!r} read with secret {empty!r}: unpickler calls {n}, value {back!r}',
                              {'unit': {'kind': 'note', 'header': evil_hdr, 'secret': repr(empty)}})
        # other secret / other name (the signature is valid for these: the unpickler may run, the value must stay hidden)
        for s2 in SECRETS:
            if s2 == secret:
                continue
            try:
                back = new_request(pair).get_cookie(name, default=SENT, secret=s2)
            except Exception as e:  # noqa
                ctx.violation(f'other-secret-raises-{type(e).__name__}', f'{pair!r} read with secret {s2!r}: {e!r}', None)
                continue
            n = len(mon.spy.loads_calls)
            mon.check_spy('other secret', None)
            ctx.count('tamper_other_secret')
            ctx.count('tamper_reads')
            ctx.case(('os', pair, s2), nontrivial=True)
            if back is not SENT or n:
                ctx.violation('cookie-signed-with-another-secret-accepted', f'{pair!r} read with secret {s2!r}: {back!r}, unpickler calls {n}',
                              {'unit': {'kind': 'note', 'pair': pair, 'secret': secret, 'read_with': s2}})
            else:
                ctx.count('read_as_absent')
        for n2 in NAMES:
            if n2 == name:
                continue
            hdr = n2 + pair[len(name):]
            back = new_request(hdr).get_cookie(n2, default=SENT, secret=secret)
            mon.check_spy('other name', None)
            ctx.count('tamper_other_name')
            ctx.count('tamper_reads')
            ctx.case(('on', hdr), nontrivial=True)
            if back is not SENT:
                ctx.violation('signed-cookie-accepted-under-another-name', f'{hdr!r}: {back!r}', {'unit': {'kind': 'note', 'header': hdr}})
            else:
                ctx.count('read_as_absent')


def plan(tier, seed):
    if tier == 'quick':
        return ([{'kind': 'roundtrip', 'n': 800, 'sub': i} for i in range(3)] + [{'kind': 'tamper', 'cookies': 2, 'sub': i} for i in range(5)]
                + [{'kind': 'tamper', 'cookies': 1, 'long': [L], 'sub': i} for i, L in enumerate((700, 1480, 1600, 2200, 2900))])
    return ([{'kind': 'roundtrip', 'n': 6000, 'sub': i} for i in range(8)] + [{'kind': 'tamper', 'cookies': 10, 'sub': i} for i in range(40)]
            + [{'kind': 'tamper', 'cookies': 2, 'alphabet': 'full', 'sub': i} for i in range(24)]
            + [{'kind': 'tamper', 'cookies': 4, 'long': [300 + 97 * i + 7 * j for j in range(4)], 'sub': i} for i in range(27)])


def run_unit(ctx, unit):
    k = unit['kind']
    if k == 'roundtrip':
        roundtrip_unit(ctx, unit)
    elif k == 'tamper':
        tamper_unit(ctx, unit)
    elif k == 'tamper1':
        mon = Mon(ctx)
        del mon.spy.loads_calls[:]
        print(f"  Cookie: {unit['header']!r} read with secret {unit['secret']!r}")
        try:
            if unit.get('genuine_first'):
                rq = new_request(unit['genuine_first'])
                print('  genuine cookie read first:', repr(rq.get_cookie(unit['name'], default='<absent>', secret=unit['secret']))[:80])
                del mon.spy.loads_calls[:]
                rq['HTTP_COOKIE'] = unit['header']
                back = rq.get_cookie(unit['name'], default='<absent>', secret=unit['secret'])
            else:
                back = new_request(unit['header']).get_cookie(unit['name'], default='<absent>', secret=unit['secret'])
            print(f'  -> {back!r}; unpickler calls: {len(mon.spy.loads_calls)}')
            if back != '<absent>' or mon.spy.loads_calls:
                ctx.violation('replayed', 'altered cookie accepted or deserialised', None)
        except Exception as e:  # noqa
            print(f'  -> raises {e!r}')
            ctx.violation('replayed', repr(e), None)
    else:
        print('  witness:', unit)
