"""C07 - multipart forms and uploads round-trip exactly.

encode -> POST -> read equality.  The encoder is the harness's own (RFC 7578 layout, names and
file names quoted verbatim as UTF-8) and shares nothing with the parser.  The handler behind
Ombott.__call__ reads request.forms, request.files and request.POST and records plain data,
which is compared with an ordered multi-dict model of the field list that was sent.
"""
from vmon.wsgi import make_environ, call_app, RecStream, chunk_encode

RULE = ('field lists of 0..6 parts, text and file parts interleaved, empty values, duplicate names (text, file and mixed), UTF-8 names and '
        'values, names and file names with ; = space backslash, binary content with CR LF dashes and delimiter prefixes, empty file content, '
        'x boundary strings (alnum and \'+_-.) x max_memfile_size below/above the body (text inside the in-memory budget) x Content-Length or '
        'chunked framing x fragmenting stream; through Ombott.__call__. Non-trivial = more than one part or a special character or adversarial '
        'content; distinct = distinct request body.')
PYOPT = {'quick': 1, 'thorough': 1}     # one unit of every kind is also served by an interpreter started with -O (assert statements compiled out)
REQUIRED = ['units_run_under_python_-O', 'text_budget_met_within_4_bytes', 'interleaved_upload_reads', 'posts', 'text_parts', 'file_parts', 'repeated_text_names', 'repeated_file_names', 'mixed_repeated_names', 'names_with_semicolon',
            'names_with_equals', 'names_with_space', 'names_with_backslash', 'non_ascii_names', 'filenames_with_semicolon', 'spooled_to_disk',
            'chunked_framing', 'adversarial_content', 'empty_file_content', 'bytes_compared', 'zero_parts']
ASSUMPTIONS = ['names and file names contain no double quote, CR or LF and are non-empty (an empty file name is the browser\'s "no file chosen" and is treated as a text field by design)',
               'boundaries use characters that need no quoting in the Content-Type header',
               'content types carry no parameters; compared on .value when the API returns a header object',
               'the text volume (header blocks + text values) stays inside max_memfile_size (beyond it C13 applies)']

NAME_ATOMS = ['a', 'b', 'field', 'x1', 'na;me', 'a=b', 'with space', 'back\\slash', 'é', '日本', 'k;v=w x', 'semi;', '=eq', 'tr\\', 'file', 'A', "q'uote", 'a,b', 'a:b', '[0]', 'x.y', 'a\\\\b', '\\\\srv\\share',
              # text that is not in composed normal form (what macOS sends), signs with a compatibility equivalent, jamo: names are taken as sent
              'cafe\u0301', 'caf\u00e9', '\u2126', '\u03a9', '\u212b', '\u00c5', '\u1112\u1161\u11ab', '\ud55c', '\ufb01', '\uf900']
FILENAMES = ['f.txt', 'fi;le=x.txt', 'my file.bin', 'C:\\dir\\f.dat', 'ü.png', '日本.txt', 'a=b', 'semi;colon', '..', 'x' * 60, ' lead', 'f;filename=evil.txt',
             'name=n', 'a;b;c', 'trail ', '.hidden', '\\\\fileserver\\share\\r.txt', 'dbl\\\\',
             're\u0301sume\u0301.pdf', '\u2126.txt', '\u212bngstro\u0308m.csv', '\u1112\u1161\u11ab.hwp']
CTYPES = ['text/plain', 'application/octet-stream', 'image/png', 'application/x-custom+json', None]
BOUNDARIES = ['B', 'boundary', '----WebKitFormBoundaryAbC123', "a'b", 'x+y_z-0.9', '-', '---', 'aaa', '0', 'B' * 70]


def encode(fields, boundary):
    b = boundary.encode()
    out = bytearray()
    for f in fields:
        out += b'--' + b + b'\r\n'
        if f['kind'] == 'text':
            out += f'Content-Disposition: form-data; name="{f["name"]}"'.encode('utf8') + b'\r\n\r\n'
            out += f['value'].encode('utf8')
        else:
            out += f'Content-Disposition: form-data; name="{f["name"]}"; filename="{f["filename"]}"'.encode('utf8') + b'\r\n'
            if f['ctype']:
                out += b'Content-Type: ' + f['ctype'].encode() + b'\r\n'
            out += b'\r\n' + f['content']
        out += b'\r\n'
    out += b'--' + b + b'--\r\n'
    return bytes(out)


def text_volume(fields):
    """Exactly what the in-memory budget is charged with: the header block of every part (its lines joined by CRLF,
    without the blank line) plus the bytes of every text value."""
    tot = 0
    for f in fields:
        if f['kind'] == 'text':
            tot += len(f'Content-Disposition: form-data; name="{f["name"]}"'.encode('utf8')) + len(f['value'].encode('utf8'))
        else:
            tot += len(f'Content-Disposition: form-data; name="{f["name"]}"; filename="{f["filename"]}"'.encode('utf8'))
            if f['ctype']:
                tot += 2 + len('Content-Type: ' + f['ctype'])
    return tot


def gen_content(rng, boundary, adversarial):
    if not adversarial:
        return rng.randbytes(rng.choice([0, 1, 5, 40, 300]))
    delim = b'\r\n--' + boundary.encode()
    parts = []
    for _ in range(rng.randint(1, 6)):
        k = rng.random()
        if k < 0.4:
            parts.append(delim[:rng.randint(1, len(delim) - 1)] + rng.choice([b'X', b'\n', b'-', b'\r\r']))
        elif k < 0.6:
            parts.append(bytes(rng.choice(b'\r\n-') for _ in range(rng.randint(1, 6))))
        elif k < 0.8:
            parts.append(b'--' + boundary.encode()[:-1] + b'#')
        else:
            parts.append(rng.randbytes(rng.randint(1, 30)))
    data = b''.join(parts)
    if delim in data or data.endswith(b'\r'):
        data = data.replace(delim, b'@') + b'.'
    return data


def gen_fields(rng, boundary):
    n = rng.choice([0, 1, 1, 2, 3, 4, 6])
    names = []
    fields = []
    for _ in range(n):
        if names and rng.random() < 0.35:
            name = rng.choice(names)
        else:
            name = rng.choice(NAME_ATOMS)
            if rng.random() < 0.3:
                name += rng.choice(NAME_ATOMS)
            names.append(name)
        if rng.random() < 0.5:
            v = rng.choice(['', 'v', 'hello world', 'é', '日本語', 'a=b&c=d', 'line1\r\nline2', '--' + boundary[:-1], 'x' * 200, '"quoted"', 'semi;colon', ' sp ', '\t', '-', '\n'])
            delim = '\r\n--' + boundary
            if delim in v:
                v = 'safe'
            fields.append({'kind': 'text', 'name': name, 'value': v})
        else:
            adv = rng.random() < 0.5
            fields.append({'kind': 'file', 'name': name, 'filename': rng.choice(FILENAMES), 'ctype': rng.choice(CTYPES),
                           'content': gen_content(rng, boundary, adv), 'adversarial': adv})
    return fields


def model(fields):
    forms, files, post = {}, {}, {}

    def add(d, k, v):
        if k in d:
            if isinstance(d[k], list) and d.get(('__l', k)) is None:
                d[k].append(v)
            else:
                d[k] = [d[k], v]
        else:
            d[k] = v

    class MD(dict):
        pass

    def add2(d, lists, k, v):
        if k in d:
            if k in lists:
                d[k].append(v)
            else:
                d[k] = [d[k], v]
                lists.add(k)
        else:
            d[k] = v
    lf, lu, lp = set(), set(), set()
    for f in fields:
        if f['kind'] == 'text':
            add2(forms, lf, f['name'], f['value'])
            add2(post, lp, f['name'], ('text', f['value']))
        else:
            up = ('file', f['filename'], f['ctype'], f['content'])
            add2(files, lu, f['name'], up)
            add2(post, lp, f['name'], up)
    return forms, files, post


def plain_upload(u):
    ct = u.content_type
    ct = getattr(ct, 'value', ct) or None
    u.file.seek(0)
    data = u.file.read()
    u.file.seek(0)
    again = u.file.read()
    if again != data:
        return ('file', u.raw_filename, ct, data, 'second read differs')
    # sized reads must stay inside the part too
    u.file.seek(0)
    big = u.file.read(len(data) + 64)
    u.file.seek(0)
    pieces = []
    while True:
        p = u.file.read(7)
        if not p or len(pieces) > len(data) + 10:
            break
        pieces.append(p)
    u.file.seek(max(0, len(data) - 3))
    tail = u.file.read(50)
    if big != data or b''.join(pieces) != data or tail != data[max(0, len(data) - 3):]:
        return ('file', u.raw_filename, ct, big, 'sized reads leave the part')
    # relative seeks that overshoot the start of the part stop at its start (the file object is a window on the part)
    for rel in ((0, 0, -3, 1), (1, 0, -10, 1), (0, 2, -len(data) - 5, 2), (0, 0, -len(data) - 1, 2), (2, 0, -2, 1)):
        u.file.seek(rel[0], rel[1])
        u.file.seek(rel[2], rel[3])
        pos = u.file.tell()
        tail = u.file.read()
        if pos < 0 or pos > len(data) or tail != data[pos:]:
            return ('file', u.raw_filename, ct, tail, f'seek{rel[2:]} after seek{rel[:2]} leaves the part (tell() = {pos})')
    u.file.seek(-2, 2)
    if u.file.read() != data[-2:] and len(data) >= 2:
        return ('file', u.raw_filename, ct, data, 'seek(-2, SEEK_END) does not give the last two bytes')
    # read(-1) / read(None): everything that is left of the part, nothing of what follows it
    u.file.seek(0)
    all_neg = u.file.read(-1)
    u.file.seek(min(3, len(data)))
    rest_neg = u.file.read(-1)
    u.file.seek(0)
    all_none = u.file.read(None)
    if all_neg != data or rest_neg != data[3:] or all_none != data:
        return ('file', u.raw_filename, ct, all_neg, 'read(-1) / read(None) leave the part')

    class WriteOnlySink:
        """a destination with nothing but write(), which (like many hand-written sinks) returns nothing"""

        def __init__(self):
            self.parts = []

        def write(self, b):
            self.parts.append(bytes(b))
    u.file.seek(0)
    wo = WriteOnlySink()
    u.save(wo, chunk_size=7)
    if b''.join(wo.parts) != data:
        return ('file', u.raw_filename, ct, b''.join(wo.parts), 'save() into a write-only sink differs')
    # the other way to the content: FileUpload.save() into a file-like object and into a directory
    import io
    import os
    import tempfile
    import shutil
    u.file.seek(0)
    sink = io.BytesIO()
    u.save(sink, chunk_size=5)
    u.file.seek(2)
    sink2 = io.BytesIO()
    u.save(sink2)
    pos_after = u.file.tell()
    if sink.getvalue() != data or sink2.getvalue() != data[2:] or pos_after != min(2, len(data)) and len(data) >= 2:
        return ('file', u.raw_filename, ct, sink.getvalue(), 'save() into a file-like object differs (or moves the position)')
    d = tempfile.mkdtemp(prefix='vmon-c07-', dir='/dev/shm' if os.path.isdir('/dev/shm') else None)
    try:
        u.file.seek(0)
        u.save(d)
        names = os.listdir(d)
        if len(names) != 1 or os.path.realpath(os.path.join(d, names[0])) != os.path.join(os.path.realpath(d), names[0]):
            return ('file', u.raw_filename, ct, data, f'save() into a directory wrote {names!r}')
        with open(os.path.join(d, names[0]), 'rb') as fh:
            saved = fh.read()
        if saved != data:
            return ('file', u.raw_filename, ct, saved, 'save() into a directory wrote other bytes')
        # saving the same upload there again is refused (no overwrite) - and leaves what was saved before as it is
        u.file.seek(0)
        try:
            u.save(d)
            refused = False
        except OSError:
            refused = True
        still = os.listdir(d)
        if refused:
            if still != names or open(os.path.join(d, names[0]), 'rb').read() != data:
                return ('file', u.raw_filename, ct, data, f'a refused second save() changed what the first one had written: directory now holds {still!r}')
        u.file.seek(0)
        u.save(d, overwrite=True)
        if open(os.path.join(d, names[0]), 'rb').read() != data:
            return ('file', u.raw_filename, ct, data, 'save(overwrite=True) wrote other bytes')
        SAVED['n'] = SAVED.get('n', 0) + 1
    finally:
        shutil.rmtree(d, ignore_errors=True)
    return ('file', u.raw_filename, ct, data)


SAVED = {}


def plain(v):
    if isinstance(v, list):
        return [plain(x) for x in v]
    if isinstance(v, str):
        return v
    return plain_upload(v)


def plain_post(v):
    if isinstance(v, list):
        return [plain_post(x) for x in v]
    if isinstance(v, str):
        return ('text', v)
    return plain_upload(v)


def build_app(seen):
    import ombott
    app = ombott.Ombott()

    @app.route('/up', method='POST')
    def up():
        rq = app.request
        seen['forms'] = {k: plain(v) for k, v in rq.forms.items()}
        seen['files'] = {k: plain(v) for k, v in rq.files.items()}
        seen['post'] = {k: plain_post(v) for k, v in rq.POST.items()}
        seen['order'] = list(rq.POST)
        # uploads read in two interleaved passes (a sniff of every file first, then the rest of each): all uploads of a
        # request are windows onto one buffered body
        ups = []
        for k, v in rq.files.items():
            for u in (v if isinstance(v, list) else [v]):
                ups.append(u)
        heads = []
        for u in ups:
            u.file.seek(0)
            heads.append(u.file.read(4))
        seen['interleaved'] = [h + u.file.read() for h, u in zip(heads, ups)]
        seen['body_type'] = type(rq.body).__name__
        return 'ok'
    return app


def classify(ctx, fields):
    seen_names = {}
    for f in fields:
        ctx.count('text_parts' if f['kind'] == 'text' else 'file_parts')
        n = f['name']
        seen_names.setdefault(n, set()).add(f['kind'])
        for ch, c in ((';', 'names_with_semicolon'), ('=', 'names_with_equals'), (' ', 'names_with_space'), ('\\', 'names_with_backslash')):
            if ch in n:
                ctx.count(c)
        if any(ord(c) > 127 for c in n):
            ctx.count('non_ascii_names')
        if f['kind'] == 'file':
            if ';' in f['filename']:
                ctx.count('filenames_with_semicolon')
            if f.get('adversarial'):
                ctx.count('adversarial_content')
            if not f['content']:
                ctx.count('empty_file_content')
    cnt = {}
    for f in fields:
        cnt.setdefault(f['name'], []).append(f['kind'])
    for n, ks in cnt.items():
        if len(ks) > 1:
            if set(ks) == {'text'}:
                ctx.count('repeated_text_names')
            elif set(ks) == {'file'}:
                ctx.count('repeated_file_names')
            else:
                ctx.count('mixed_repeated_names')
    if not fields:
        ctx.count('zero_parts')


def diff_sig(exp, got, what):
    if set(exp) != set(got):
        missing = [k for k in exp if k not in got]
        extra = [k for k in got if k not in exp]
        if missing and extra:
            for m in missing:
                for e in extra:
                    if m.startswith(e) and m[len(e):len(e) + 1] in (';',):
                        return f'{what}:name-truncated-at-semicolon'
            return f'{what}:name-altered'
        return f'{what}:field-missing' if missing else f'{what}:field-in-wrong-container-or-extra'
    for k in exp:
        e, g = exp[k], got[k]
        if isinstance(e, list) != isinstance(g, list):
            return f'{what}:single-vs-list-shape'
        if isinstance(e, list) and len(e) == len(g) and sorted(map(repr, e)) == sorted(map(repr, g)) and e != g:
            return f'{what}:repeat-order'
        if e != g:
            ee, gg = (e if isinstance(e, list) else [e]), (g if isinstance(g, list) else [g])
            if len(ee) != len(gg):
                return f'{what}:repeat-count'
            for a, b in zip(ee, gg):
                if a != b:
                    if isinstance(a, tuple) and isinstance(b, tuple) and a[0] == 'file' == b[0]:
                        if a[1] != b[1]:
                            return f'{what}:filename-truncated-at-semicolon' if a[1].startswith(str(b[1])) and ';' in a[1] else f'{what}:filename-altered'
                        if a[2] != b[2]:
                            return f'{what}:content-type-altered'
                        return f'{what}:file-bytes-altered'
                    if type(a) is not type(b):
                        return f'{what}:text-and-upload-mixed-in-one-container'
                    return f'{what}:text-value-altered'
    if list(exp) != list(got):
        return f'{what}:key-order'
    return None


def one_post(ctx, app, seen, rng, fields, boundary, framing, B, policy, wit):
    body = encode(fields, boundary)
    ctype = 'multipart/form-data; boundary=' + boundary
    if framing == 'chunked':
        raw = chunk_encode(body, rng)
        env = make_environ('POST', '/up', stream=RecStream(raw, policy), content_length=None, chunked=True, content_type=ctype)
        ctx.count('chunked_framing')
    else:
        env = make_environ('POST', '/up', stream=RecStream(body, policy), content_length=len(body), content_type=ctype)
    app.setup({'max_memfile_size': B})
    seen.clear()
    r = call_app(app, env)
    ctx.count('posts')
    where = f'{len(fields)} parts boundary={boundary!r} framing={framing} max_memfile_size={B}'
    if r.code != 200 or 'post' not in seen:
        tail = r.errors.strip().splitlines()[-1][:120] if r.errors.strip() else ''
        ctx.violation(f'well-formed-post-rejected:{r.code}:{tail.split(":")[0][:60]}', f'{where}: {r.status} {tail}; fields={show(fields)}', wit)
        return
    if seen['body_type'] != 'BytesIO':
        ctx.count('spooled_to_disk')
    forms, files, post = model(fields)
    exp_inter = [f['content'] for f in sorted((f for f in fields if f['kind'] == 'file'), key=lambda f: list(files).index(f['name']))]
    if len(exp_inter) > 1:
        ctx.count('interleaved_upload_reads')
    if seen.get('interleaved') != exp_inter:
        ctx.violation('files:interleaved-partial-reads-leave-the-part', f'{where}: sent {show(fields)}; reading 4 bytes of every upload and then the rest of each gave '
                      f'{[x[:30] for x in seen.get("interleaved", [])]}', wit)
        return
    ctx.count('bytes_compared', sum(len(f.get('content', b'')) for f in fields))
    for what, exp, got in (('forms', forms, seen['forms']), ('files', files, seen['files']), ('POST', post, seen['post'])):
        sig = diff_sig(exp, got, what)
        if sig:
            ctx.violation(sig, f'{where}: sent {show(fields)}; {what} expected {short(exp)} got {short(got)}', wit)
            return


def short(d):
    return repr(d)[:400]


def show(fields):
    out = []
    for f in fields:
        if f['kind'] == 'text':
            out.append(('text', f['name'], f['value'][:30]))
        else:
            out.append(('file', f['name'], f['filename'], f['ctype'], f['content'][:20]))
    return repr(out)[:600]


def to_wit(fields, boundary, framing, B):
    fs = []
    for f in fields:
        g = dict(f)
        if 'content' in g:
            g['content'] = g['content'].decode('latin1')
        fs.append(g)
    return {'unit': {'kind': 'one', 'fields': fs, 'boundary': boundary, 'framing': framing, 'B': B}}


def random_unit(ctx, unit):
    rng = ctx.rng
    seen = {}
    app = build_app(seen)
    for i in range(unit['n']):
        boundary = rng.choice(BOUNDARIES)
        fields = gen_fields(rng, boundary)
        body_len = len(encode(fields, boundary))
        framing = rng.choice(['cl', 'cl', 'chunked'])
        tv = max(1, text_volume(fields))
        # the budget exactly met, and 1..4 bytes to spare (the blank line between headers and data is 4 bytes)
        B = rng.choice([tv, tv, tv + 1, tv + 2, tv + 3, tv + 4, tv + 16, max(tv, body_len - 1), max(tv, body_len), body_len + tv + 100, 102400, max(tv, 64)])
        if B <= tv + 4:
            ctx.count('text_budget_met_within_4_bytes')
        if framing == 'chunked' and B < 16:
            B = max(B, 16)
        policy = rng.choice(['full', ('rand', rng), 'one' if body_len < 400 else 'full'])
        classify(ctx, fields)
        nontriv = len(fields) > 1 or any(f.get('adversarial') for f in fields) or any(set(f['name']) & set(';= \\') for f in fields)
        ctx.case(('post', encode(fields, boundary), framing, B), nontrivial=nontriv)
        one_post(ctx, app, seen, rng, fields, boundary, framing, B, policy, to_wit(fields, boundary, framing, B))
        if i % 301 == 0:
            ctx.sample({'boundary': boundary, 'fields': show(fields), 'framing': framing, 'max_memfile_size': B, 'body_len': body_len})


FORCED = [
    [{'kind': 'text', 'name': 'na;me', 'value': 'v'}],
    [{'kind': 'file', 'name': 'up', 'filename': 'fi;le=x.txt', 'ctype': 'text/plain', 'content': b'data'}],
    [{'kind': 'text', 'name': 'a', 'value': '1'}, {'kind': 'file', 'name': 'a', 'filename': 'f', 'ctype': None, 'content': b'F'}],
    [{'kind': 'file', 'name': 'a', 'filename': 'f', 'ctype': None, 'content': b'F'}, {'kind': 'text', 'name': 'a', 'value': '1'}],
    [{'kind': 'text', 'name': 'a', 'value': '1'}, {'kind': 'text', 'name': 'a', 'value': '2'}, {'kind': 'text', 'name': 'a', 'value': '3'}],
    [{'kind': 'file', 'name': 'f', 'filename': 'x', 'ctype': 'image/png', 'content': b''}, {'kind': 'file', 'name': 'f', 'filename': 'y', 'ctype': None, 'content': b'\r\n--!B\r\n-'}],
    [],
    [{'kind': 'text', 'name': 'a=b', 'value': ''}, {'kind': 'text', 'name': 'with space', 'value': ' '}, {'kind': 'text', 'name': 'back\\slash', 'value': '\\'}],
]


def forced_unit(ctx, unit):
    rng = ctx.rng
    seen = {}
    app = build_app(seen)
    for fields in FORCED:
        for boundary in ('B', '---', 'x+y_z-0.9'):
            for framing in ('cl', 'chunked'):
                classify(ctx, fields)
                ctx.case(('forced', encode(fields, boundary), framing), nontrivial=True)
                one_post(ctx, app, seen, rng, fields, boundary, framing, 102400, 'full', to_wit(fields, boundary, framing, 102400))


def plan(tier, seed):
    if tier == 'quick':
        return [{'kind': 'forced'}] + [{'kind': 'random', 'n': 400, 'sub': i} for i in range(6)]
    return [{'kind': 'forced'}] + [{'kind': 'random', 'n': 4000, 'sub': i} for i in range(32)]


def run_unit(ctx, unit):
    k = unit['kind']
    if k == 'random':
        random_unit(ctx, unit)
    elif k == 'forced':
        forced_unit(ctx, unit)
    else:
        seen = {}
        app = build_app(seen)
        fields = []
        for f in unit['fields']:
            g = dict(f)
            if 'content' in g:
                g['content'] = g['content'].encode('latin1')
            fields.append(g)
        one_post(ctx, app, seen, ctx.rng, fields, unit['boundary'], unit['framing'], unit['B'], 'full', None)
        print('  handler saw:', {k: short(v) for k, v in seen.items()})
