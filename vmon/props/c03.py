"""C03 - every request gets exactly one well-formed WSGI response; hooks lifecycle.

Invariant monitor at the WSGI boundary: vmon.wsgi.call_app plays the server (counts
start_response calls, validates status line / header list / item types, consumes and closes
the iterable); the standard library's wsgiref.validate.validator is wrapped around the same
application as a second, independent opinion.  The workload is the full product of a handler-
program DSL: return kind x request method x status x hook configuration x error-handler
configuration x routing outcome.  Expected status, hook trace and (for plain kinds) body come
from a small reference interpreter of the program, not from the framework.
"""
import io
import os
import itertools
from wsgiref.validate import validator
from vmon.wsgi import make_environ, call_app, check_framing

RULE = ('programs = product of return kinds (str, bytes, empty, None, list/generator/custom iterator of str or bytes with leading empty items, '
        'all-empty iterable, file-like with/without close and with/without wsgi.file_wrapper, HTTPResponse/HTTPError returned / raised / yielded '
        'first / nested three deep / carrying a generator body, exception in the handler / at the first next(), unsupported types, abort()) x method {GET,HEAD,POST} x '
        'status {200,201,204,304,100,102,404,500, 299 (no registered reason phrase), 999 (the highest code accepted), "250 Custom Reason" (line kept verbatim)} x hooks {none, 2 before + 2 after, failing before-hook, before-hook raising a response} x '
        'error handlers {default, custom returning str, custom raising; thorough adds bytes, None, generator, response object, same error again} x routing outcome {found, 404, 405}. '
        'Non-trivial = anything but a plain str/bytes return with default configuration; distinct = distinct program.')
PYOPT = {'quick': 1, 'thorough': 1}     # one unit of every kind is also served by an interpreter started with -O (assert statements compiled out)
REQUIRED = ['units_run_under_python_-O', 'custom_reason_phrases', 'self_modifying_hook_requests', 'programs', 'sr_once', 'validator_agreed', 'content_length_checked', 'no_body_statuses', 'head_requests', 'closed_once_checked',
            'hook_traces_checked', 'failing_before_hook', 'handler_exceptions_to_500', 'last_resort_pages', 'outcome_404', 'outcome_405',
            'file_wrapper_used', 'generator_first_next_raises', 'response_yielded_first', 'nested_responses']
EXHAUSTIVE = {'quick': True, 'thorough': True,
              'quick_note': 'the full product listed in the rule (own Content-Length and charset variants only in thorough)',
              'thorough_note': 'the full product incl. handler-set Content-Length, charset variants and JSON-accepting clients'}
ASSUMPTIONS = ['failures after the first body chunk and failing after-request hooks are outside the statement',
               'whether an iterable that yielded a response object first is closed is not judged',
               'the path is decodable']

KINDS = ['str', 'bytes', 'str_nonascii', 'empty_str', 'empty_bytes', 'none', 'list_str', 'list_bytes', 'list_leading_empty', 'list_empty',
         'tuple_str', 'gen_str', 'gen_bytes', 'gen_leading_empty', 'gen_all_empty', 'iter_custom', 'iter_custom_bytes', 'filelike', 'filelike_noclose',
         'resp_returned', 'err_returned', 'resp_raised', 'err_raised', 'resp_gen_body', 'gen_yields_resp', 'gen_yields_err', 'nested3',
         'exception', 'gen_exception_first', 'unsupported_int', 'unsupported_list', 'abort', 'gen_raises_resp', 'dict_false', 'iter_of_lists',
         'iterable_sep_iter', 'iterable_gen_iter', 'iterable_sep_iter_bytes',
         # falsy results that are no containers (`return flag and 'text'`, `return len(items) and ...`): an empty answer
         'false', 'zero', 'float_zero',
         # a real file of the file system, opened by the handler, its first line already read (a header line, magic bytes)
         'realfile_positioned',
         # exactly one chunk and nothing after it, not even an empty item
         'iter_single', 'iter_single_bytes', 'iterable_single', 'gen_single',
         # empty items first, then a failure / a raised response: still "before the first body chunk"
         'gen_empties_then_exception', 'gen_empties_then_err', 'gen_empties_then_resp']
METHODS = ['GET', 'HEAD', 'POST']
STATUSES = [200, 201, 204, 304, 100, 102, 404, 500, 299, 999, '250 Custom Reason']     # 299: no registered reason phrase


def code_of(S):
    return S if isinstance(S, int) else int(S.split()[0])
HOOKS = ['none', 'two_two', 'before_fails', 'before_raises_resp']
# hook configurations that edit the hook lists while they are being emitted (run as two-request sequences)
HOOKS_SELFMOD = ['one_shot', 'lazy_add']
ERRH = ['default', 'custom_str', 'custom_raises']
ERRH_MORE = ['custom_bytes', 'custom_none', 'custom_gen', 'custom_resp', 'custom_loop']     # thorough tier
ROUTES = ['found', '404', '405']


class CountIter:
    def __init__(self, items, st):
        self.items = list(items)
        self.st = st
        st['iter_close'] = 0

    def __iter__(self):
        return self

    def __next__(self):
        if not self.items:
            raise StopIteration
        it = self.items.pop(0)
        if it:
            self.st['produced'] = True
        return it

    def close(self):
        self.st['iter_close'] += 1


_REAL = {}


def _real_file():
    if 'p' not in _REAL:
        import atexit
        import tempfile
        fd, path = tempfile.mkstemp(prefix='vmon-c03-', dir='/dev/shm' if os.path.isdir('/dev/shm') else None)
        with os.fdopen(fd, 'wb') as f:
            f.write(b'#header line of the file, read by the handler\n' + b'file-data-' * 10)
        atexit.register(lambda: os.path.exists(path) and os.unlink(path))
        _REAL['p'] = path
    return _REAL['p']


class FileLike:
    def __init__(self, data, st, with_close=True):
        self.buf = io.BytesIO(data)
        self.st = st
        st['file_close'] = 0
        if with_close:
            self.close = self._close

    def read(self, n=-1):
        d = self.buf.read(n)
        if d:
            self.st['produced'] = True
        return d

    def _close(self):
        self.st['file_close'] += 1


class SepIterable:
    """closeable iterable whose __iter__ returns a *separate* iterator"""

    def __init__(self, items, st, how='list'):
        self.items = list(items)
        self.st = st
        self.how = how
        st['iter_close'] = 0

    def __iter__(self):
        if self.how == 'list':
            return iter(self._produce())
        return self._gen()

    def _produce(self):
        self.st['produced'] = any(self.items)
        return list(self.items)

    def _gen(self):
        for it in self.items:
            if it:
                self.st['produced'] = True
            yield it

    def close(self):
        self.st['iter_close'] += 1


def counted_gen(items, st, raise_first=None, raise_after=None):
    st['gen_finalised'] = 0
    st['gen_started'] = False

    def g():
        try:
            st['gen_started'] = True
            if raise_after is not None:
                for it in items:
                    yield it
                raise raise_after
            if raise_first is not None:
                raise raise_first
            for it in items:
                if it and not hasattr(it, 'apply'):
                    st['produced'] = True
                yield it
        finally:
            st['gen_finalised'] += 1
    return g()


def make_world(hooks, errh):
    import ombott
    from ombott import HTTPResponse, HTTPError
    app = ombott.Ombott()
    W = {'app': app, 'trace': [], 'cur': {}, 'st': {}}
    tr = W['trace']

    def handler():
        tr.append('handler')
        p = W['cur']
        st = W['st']
        S = p['status']
        kind = p['kind']
        resp = app.response
        plain = {'str', 'bytes', 'str_nonascii', 'empty_str', 'empty_bytes', 'none', 'list_str', 'list_bytes', 'list_leading_empty', 'list_empty', 'tuple_str',
                 'gen_str', 'gen_bytes', 'gen_leading_empty', 'gen_all_empty', 'iter_custom', 'iter_custom_bytes', 'filelike', 'filelike_noclose', 'dict_false', 'iter_of_lists',
                 'iter_single', 'iter_single_bytes', 'iterable_single', 'gen_single', 'realfile_positioned', 'false', 'zero', 'float_zero',
                 'iterable_sep_iter', 'iterable_gen_iter', 'iterable_sep_iter_bytes'}
        if kind in plain:
            resp.status = S
            if p.get('own_cl'):
                resp.headers['Content-Length'] = '3'
            if p.get('charset'):
                resp.content_type = 'text/plain; charset=' + p['charset']
        if kind == 'str':
            return 'hello'
        if kind == 'bytes':
            return b'hello'
        if kind == 'str_nonascii':
            return 'héllo 日本'
        if kind == 'empty_str':
            return ''
        if kind == 'empty_bytes':
            return b''
        if kind == 'none':
            return None
        if kind == 'list_str':
            return ['a', 'bc', 'é']
        if kind == 'list_bytes':
            return [b'a', b'bc']
        if kind == 'list_leading_empty':
            return ['', '', 'x', '', 'y']
        if kind == 'list_empty':
            return []
        if kind == 'tuple_str':
            return ('t1', 't2')
        if kind == 'gen_str':
            return counted_gen(['g1', 'g2', 'é'], st)
        if kind == 'gen_bytes':
            return counted_gen([b'g1', b'g2'], st)
        if kind == 'gen_leading_empty':
            return counted_gen(['', '', 'x', '', 'y'], st)
        if kind == 'gen_all_empty':
            return counted_gen(['', '', ''], st)
        if kind == 'iter_single':
            return CountIter(['only'], st)
        if kind == 'iter_single_bytes':
            return CountIter([b'only'], st)
        if kind == 'iterable_single':
            return SepIterable(['only'], st, 'gen')
        if kind == 'gen_single':
            return counted_gen(['only'], st)
        if kind == 'iter_custom':
            return CountIter(['', 'c1', 'c2'], st)
        if kind == 'iter_custom_bytes':
            return CountIter([b'c1', b'', b'c2'], st)
        if kind == 'iterable_sep_iter':
            return SepIterable(['', 's1', 's2'], st, 'list')
        if kind == 'iterable_sep_iter_bytes':
            return SepIterable([b's1', b's2'], st, 'list')
        if kind == 'iterable_gen_iter':
            return SepIterable(['', 's1', 's2'], st, 'gen')
        if kind == 'filelike':
            return FileLike(b'file-data-' * 10, st)
        if kind == 'filelike_noclose':
            return FileLike(b'file-data-' * 10, st, with_close=False)
        if kind in ('false', 'zero', 'float_zero'):
            return {'false': False, 'zero': 0, 'float_zero': 0.0}[kind]
        if kind == 'realfile_positioned':
            f = open(_real_file(), 'rb')
            f.readline()
            return f
        if kind == 'dict_false':
            return {}
        if kind == 'iter_of_lists':
            return [['nested-list']]
        if kind == 'resp_returned':
            return HTTPResponse('resp-body', S, {'X-K': 'v'})
        if kind == 'err_returned':
            return HTTPError(S, 'err-body')
        if kind == 'resp_raised':
            raise HTTPResponse('resp-body', S, {'X-K': 'v'})
        if kind == 'err_raised':
            raise HTTPError(S, 'err-body')
        if kind == 'abort':
            ombott.abort(S, 'aborted')
        if kind == 'resp_gen_body':
            return HTTPResponse(counted_gen(['', 'rg1', 'rg2'], st), S)
        if kind == 'gen_yields_resp':
            return counted_gen([HTTPResponse('from-gen', S)], st)
        if kind == 'gen_yields_err':
            return counted_gen(['', HTTPError(S, 'err-from-gen')], st)
        if kind == 'gen_raises_resp':
            return counted_gen([], st, raise_first=HTTPResponse('raised-in-gen', S))
        if kind == 'gen_empties_then_exception':
            return counted_gen(['', b'', None], st, raise_after=KeyError('failed after the empty items'))
        if kind == 'gen_empties_then_err':
            return counted_gen(['', ''], st, raise_after=HTTPError(S, 'err-after-empties'))
        if kind == 'gen_empties_then_resp':
            return counted_gen([b'', ''], st, raise_after=HTTPResponse('raised-in-gen', S))
        if kind == 'nested3':
            return HTTPResponse(HTTPResponse(HTTPResponse('deep', S), 202), 203)
        if kind == 'exception':
            raise ZeroDivisionError('handler failed')
        if kind == 'gen_exception_first':
            return counted_gen([], st, raise_first=KeyError('first next failed'))
        if kind == 'unsupported_int':
            return 42
        if kind == 'unsupported_list':
            return [1, 2, 3]
        raise AssertionError(kind)

    app.route('/found', ['GET', 'HEAD', 'POST'], handler)
    app.route('/only-put', 'PUT', handler)

    if hooks == 'two_two':
        # the three ways to attach a hook: add_hook(name, f), on(name, f), @on(name)
        app.add_hook('before_request', lambda: tr.append('B1'))
        app.on('before_request', lambda: tr.append('B2'))
        app.on('after_request')(lambda: tr.append('A1'))
        app.on('after_request', lambda: tr.append('A2'))
    elif hooks == 'before_fails':
        app.add_hook('before_request', lambda: tr.append('B1'))

        def b2():
            tr.append('B2')
            raise RuntimeError('before hook failed')
        app.add_hook('before_request', b2)
        app.add_hook('before_request', lambda: tr.append('B3'))
        app.add_hook('after_request', lambda: tr.append('A1'))
        app.add_hook('after_request', lambda: tr.append('A2'))
    elif hooks == 'before_raises_resp':
        app.add_hook('before_request', lambda: tr.append('B1'))

        def b2():
            tr.append('B2')
            raise HTTPResponse('from-hook', 202)
        app.add_hook('before_request', b2)
        app.add_hook('before_request', lambda: tr.append('B3'))
        app.add_hook('after_request', lambda: tr.append('A1'))

    if errh == 'custom_str':
        for code in (404, 405, 500):
            app.error(code)(lambda err, code=code: 'custom-%d' % code)
    elif errh == 'custom_raises':
        def bad(err):
            raise RuntimeError('error handler failed')
        for code in (404, 405, 500):
            app.error(code)(bad)
    elif errh == 'custom_bytes':
        for code in (404, 405, 500):
            app.error(code)(lambda err, code=code: b'custom-%d' % code)
    elif errh == 'custom_none':
        for code in (404, 405, 500):
            app.error(code)(lambda err: None)
    elif errh == 'custom_gen':
        def eg(err):
            yield ''
            yield 'gen-'
            yield str(err.status_code)
        for code in (404, 405, 500):
            app.error(code)(eg)
    elif errh == 'custom_resp':
        for code in (404, 405, 500):
            app.error(code)(lambda err: HTTPResponse('replaced', 299, {'X-Replaced': str(err.status_code)}))
    elif errh == 'custom_loop':
        for code in (404, 405):
            app.error(code)(lambda err, code=code: HTTPError(code, 'again'))
    W['validated'] = validator(app)
    return W


PLAIN_BODY = {
    'str': b'hello', 'bytes': b'hello', 'str_nonascii': 'héllo 日本'.encode(), 'empty_str': b'', 'empty_bytes': b'', 'none': b'',
    'list_str': 'abcé'.encode(), 'list_bytes': b'abc', 'list_leading_empty': b'xy', 'list_empty': b'', 'tuple_str': b't1t2',
    'gen_str': 'g1g2é'.encode(), 'gen_bytes': b'g1g2', 'gen_leading_empty': b'xy', 'gen_all_empty': b'', 'iter_custom': b'c1c2',
    'iter_custom_bytes': b'c1c2', 'iterable_sep_iter': b's1s2', 'iterable_gen_iter': b's1s2', 'iterable_sep_iter_bytes': b's1s2', 'filelike': b'file-data-' * 10, 'filelike_noclose': b'file-data-' * 10, 'dict_false': b'',
    'realfile_positioned': b'file-data-' * 10, 'false': b'', 'zero': b'', 'float_zero': b'',
    'iter_single': b'only', 'iter_single_bytes': b'only', 'iterable_single': b'only', 'gen_single': b'only',
}


def reference(p):
    """-> dict(status, trace, body (bytes|None = not judged), error_page, last_resort)"""
    hooks, errh, route, kind, S = p['hooks'], p['errh'], p['route'], p['kind'], code_of(p['status'])
    trace = []
    err = None        # status code of an HTTPError that reaches the error renderer
    status = None
    body = None
    handler_ran = False
    if hooks == 'two_two':
        trace += ['B1', 'B2']
    elif hooks in ('before_fails', 'before_raises_resp'):
        trace += ['B1', 'B2']
    if hooks == 'before_fails':
        err = 500
    elif hooks == 'before_raises_resp':
        status, body = 202, b'from-hook'
    elif route == '404':
        err = 404
    elif route == '405':
        err = 405
    else:
        handler_ran = True
        trace.append('handler')
        if kind in PLAIN_BODY:
            status, body = S, PLAIN_BODY[kind]
        elif kind in ('resp_returned', 'resp_raised'):
            status, body = S, b'resp-body'
        elif kind in ('err_returned', 'err_raised', 'abort', 'gen_yields_err', 'gen_empties_then_err'):
            err = S
        elif kind == 'resp_gen_body':
            status, body = S, b'rg1rg2'
        elif kind == 'gen_yields_resp':
            status, body = S, b'from-gen'
        elif kind in ('gen_raises_resp', 'gen_empties_then_resp'):
            status, body = S, b'raised-in-gen'
        elif kind == 'nested3':
            status, body = S, b'deep'
        elif kind in ('exception', 'gen_exception_first', 'unsupported_int', 'unsupported_list', 'iter_of_lists', 'gen_empties_then_exception'):
            err = 500
        else:
            raise AssertionError(kind)
    if hooks == 'two_two':
        trace += ['A2', 'A1']
    elif hooks == 'before_fails':
        trace += ['A2', 'A1']
    elif hooks == 'before_raises_resp':
        trace += ['A1']
    last_resort = False
    if err is not None:
        status = err
        if errh == 'custom_str' and err in (404, 405, 500):
            body = b'custom-%d' % err
        elif errh == 'custom_raises' and err in (404, 405, 500):
            last_resort = True
            status = 500
            body = None
        elif errh == 'custom_bytes' and err in (404, 405, 500):
            body = b'custom-%d' % err
        elif errh == 'custom_none' and err in (404, 405, 500):
            body = b''
        elif errh == 'custom_gen' and err in (404, 405, 500):
            body = b'gen-%d' % err
        elif errh == 'custom_resp' and err in (404, 405, 500):
            status, body = 299, b'replaced'
        elif errh == 'custom_loop' and err in (404, 405):
            # an error handler that answers with the same error again: the cast loop gives up with a 500 page
            status, body = 500, None
        else:
            body = None     # default error page: HTML (or JSON), content judged by C20
    return dict(status=status, trace=trace, body=body, err=err, last_resort=last_resort, handler_ran=handler_ran)


def run_program(ctx, W, p):
    app = W['app']
    tr = W['trace']
    del tr[:]
    st = W['st']
    st.clear()
    W['cur'] = p
    path = {'found': '/found', '404': '/missing', '405': '/only-put'}[p['route']]
    fw = bool(p.get('file_wrapper'))
    headers = {'Accept': 'application/json'} if p.get('json') else None
    ref = reference(p)
    wit = {'unit': {'kind': 'one', 'program': p}}
    where = ' '.join(f'{k}={v}' for k, v in p.items())
    results = []
    for use_validator in (False, True):
        del tr[:]
        st.clear()
        env = make_environ(p['method'], path, file_wrapper=fw, headers=headers, body=b'x=1' if p['method'] == 'POST' else None)
        r = call_app(W['validated'] if use_validator else app, env)
        results.append(r)
        if use_validator:
            if isinstance(r.escaped, AssertionError):
                ctx.violation('wsgiref.validate-assertion', f'{where}: {r.escaped!r}', wit)
            elif r.escaped is None:
                ctx.count('validator_agreed')
            continue
        ctx.count('programs')
        nontriv = not (p['kind'] in ('str', 'bytes') and p['hooks'] == 'none' and p['errh'] == 'default' and p['route'] == 'found' and p['status'] == 200)
        ctx.case(None, nontrivial=nontriv)
        if r.escaped is not None:
            ctx.violation(f'exception-escapes-the-application:{type(r.escaped).__name__}', f'{where}: {r.escaped!r}', wit)
            continue
        if r.sr_calls != 1:
            ctx.violation(f'start_response-called-{r.sr_calls}-times', where, wit)
            continue
        ctx.count('sr_once')
        if r.problems:
            ctx.violation('malformed-wsgi-response:' + r.problems[0].split(':')[0][:40], f'{where}: {r.problems}', wit)
            continue
        # status
        if r.code != ref['status']:
            ctx.violation(f'status-differs-from-program:{ref["status"]}->{r.code}', f'{where}: expected {ref["status"]}, got {r.status}; {r.errors[-200:]}', wit)
            continue
        if isinstance(p['status'], str) and ref['err'] is None and ref['status'] == code_of(p['status']):
            ctx.count('custom_reason_phrases')
            if r.status != p['status']:
                ctx.violation('custom-reason-phrase-not-kept', f'{where}: status line {r.status!r}', wit)
        if ref['last_resort']:
            ctx.count('last_resort_pages')
            if not r.exc_info_given:
                ctx.count('last_resort_without_exc_info(observation)')
        if ref['err'] == 500 and ref['handler_ran']:
            ctx.count('handler_exceptions_to_500')
        if p['route'] == '404' and ref['err'] == 404:
            ctx.count('outcome_404')
        if p['route'] == '405' and ref['err'] == 405:
            ctx.count('outcome_405')
            if r.code == 405 and r.header('Allow') != 'PUT':
                ctx.violation('405-without-allow', f'{where}: {r.headers}', wit)
        # body / framing
        no_body = p['method'] == 'HEAD' or r.code in (204, 304) or 100 <= r.code < 200
        if p['method'] == 'HEAD':
            ctx.count('head_requests')
        if no_body:
            ctx.count('no_body_statuses')
        own_cl = bool(p.get('own_cl')) and p['kind'] in PLAIN_BODY and ref['err'] is None and ref['status'] == code_of(p['status']) and p['hooks'] in ('none', 'two_two')
        fr = check_framing(r, p['method'], framework_set_length=not own_cl)
        ctx.count('content_length_checked')
        if fr:
            sig = 'body-on-bodiless-response' if 'body of' in fr[0] else 'content-length-differs-from-bytes-returned'
            ctx.violation(f'{sig}:{"HEAD" if p["method"] == "HEAD" else r.code}' if 'body of' in fr[0] else sig, f'{where}: {fr}', wit)
            continue
        if not no_body and ref['body'] is not None:
            exp_body = ref['body']
            if p.get('charset') and p['kind'] in ('str_nonascii', 'list_str', 'gen_str') and ref['err'] is None and ref['handler_ran']:
                exp_body = exp_body.decode('utf8').encode(p['charset'])
            if r.body != exp_body:
                ctx.violation('body-differs-from-program', f'{where}: expected {exp_body!r}, got {r.body[:80]!r}', wit)
                continue
        if not no_body and ref['body'] is None and not r.body:
            ctx.violation('error-page-empty', where, wit)
        # close discipline
        if ref['handler_ran']:
            k = p['kind']
            CLOSEABLE = ('iter_custom', 'iter_custom_bytes', 'iterable_sep_iter', 'iterable_gen_iter', 'iterable_sep_iter_bytes', 'iter_single', 'iter_single_bytes', 'iterable_single')
            if k in CLOSEABLE and (st.get('produced') or no_body):
                ctx.count('closed_once_checked')
                if st.get('produced') and st.get('iter_close') != 1:
                    ctx.violation(f'handler-iterable-closed-{st.get("iter_close")}-times', where, wit)
                elif st.get('iter_close', 0) > 1:
                    ctx.violation(f'handler-iterable-closed-{st.get("iter_close")}-times', where, wit)
            if k == 'filelike':
                ctx.count('closed_once_checked')
                if fw:
                    ctx.count('file_wrapper_used')
                if st.get('file_close') != 1 and (st.get('produced') or no_body):
                    ctx.violation(f'file-like-closed-{st.get("file_close")}-times', where, wit)
            if k == 'filelike_noclose' and fw:
                ctx.count('file_wrapper_used')
            if k in ('gen_str', 'gen_bytes', 'gen_leading_empty', 'resp_gen_body', 'gen_single') and st.get('gen_started'):
                ctx.count('closed_once_checked')
                if st.get('produced') and st.get('gen_finalised') != 1:
                    ctx.violation(f'handler-generator-finalised-{st.get("gen_finalised")}-times-after-close', where, wit)
            if k == 'gen_exception_first':
                ctx.count('generator_first_next_raises')
            if k in ('gen_yields_resp', 'gen_yields_err'):
                ctx.count('response_yielded_first')
            if k == 'nested3':
                ctx.count('nested_responses')
        # hooks
        ctx.count('hook_traces_checked')
        if p['hooks'] == 'before_fails':
            ctx.count('failing_before_hook')
        if tr != ref['trace']:
            ctx.violation('hook-or-handler-trace-differs:' + p['hooks'], f'{where}: expected {ref["trace"]}, observed {tr}', wit)
            continue
        if len(ctx.samples) < 10 and nontriv and ctx.rng.random() < 0.004:
            ctx.sample({'program': p, 'status': r.status, 'headers': r.headers, 'body': r.body[:60].decode('utf8', 'replace'), 'trace': list(tr)})


def selfmod_unit(ctx, unit):
    """Hooks that remove themselves or add further hooks while they run: every hook registered when the request
    starts still runs once; what is added during a request first runs in the next one."""
    import ombott
    for mode in HOOKS_SELFMOD:
        for route in ('found', '404', '405'):
            for method in ('GET', 'HEAD'):
                app = ombott.Ombott()
                tr = []
                app.route('/found', ['GET', 'HEAD'], lambda: tr.append('handler') or 'ok')
                app.route('/only-put', 'PUT', lambda: 'x')
                if mode == 'one_shot':
                    def b1():
                        tr.append('B1')
                        app.remove_hook('before_request', b1)

                    def a2():
                        tr.append('A2')
                        app.remove_hook('after_request', a2)
                    app.add_hook('before_request', b1)
                    app.add_hook('before_request', lambda: tr.append('B2'))
                    app.add_hook('before_request', lambda: tr.append('B3'))
                    app.add_hook('after_request', lambda: tr.append('A1'))
                    app.add_hook('after_request', a2)
                    app.add_hook('after_request', lambda: tr.append('A3'))
                    h = ['handler'] if route == 'found' else []
                    expect = [['B1', 'B2', 'B3'] + h + ['A3', 'A2', 'A1'], ['B2', 'B3'] + h + ['A3', 'A1'], ['B2', 'B3'] + h + ['A3', 'A1']]
                else:
                    state = {'added': False}

                    def lazy():
                        tr.append('A2-lazy')
                        if not state['added']:
                            state['added'] = True
                            app.add_hook('after_request', lambda: tr.append('A-new'))
                            app.add_hook('before_request', lambda: tr.append('B-new'))
                    app.add_hook('before_request', lambda: tr.append('B1'))
                    app.add_hook('after_request', lambda: tr.append('A1'))
                    app.add_hook('after_request', lazy)
                    app.add_hook('after_request', lambda: tr.append('A3'))
                    h = ['handler'] if route == 'found' else []
                    expect = [['B1'] + h + ['A3', 'A2-lazy', 'A1'], ['B1', 'B-new'] + h + ['A-new', 'A3', 'A2-lazy', 'A1'], ['B1', 'B-new'] + h + ['A-new', 'A3', 'A2-lazy', 'A1']]
                path = {'found': '/found', '404': '/missing', '405': '/only-put'}[route]
                for k, exp in enumerate(expect):
                    del tr[:]
                    r = call_app(app, make_environ(method, path))
                    ctx.count('programs')
                    ctx.count('sr_once' if r.sr_calls == 1 else 'sr_not_once')
                    ctx.count('hook_traces_checked')
                    ctx.count('self_modifying_hook_requests')
                    ctx.case(('selfmod', mode, route, method, k), nontrivial=True)
                    wit = {'unit': {'kind': 'selfmod'}}
                    if r.escaped is not None or r.sr_calls != 1 or r.problems:
                        ctx.violation('malformed-wsgi-response:self-modifying-hooks', f'{mode} {route} {method} request {k}: {r.escaped!r} {r.problems}', wit)
                    elif tr != exp:
                        ctx.violation(f'hook-or-handler-trace-differs:{mode}', f'{mode} {route} {method} request {k + 1}: expected {exp}, observed {tr}', wit)
    # hooks exchanged between requests (the number of hooks stays the same): the next request runs the hooks registered then
    for route in ('found', '404'):
        for method in ('GET', 'HEAD'):
            app = ombott.Ombott()
            tr = []
            app.route('/found', ['GET', 'HEAD'], lambda: tr.append('handler') or 'ok')
            b = {k: (lambda k=k: tr.append(k)) for k in ('B1', 'B2', 'B2x', 'A1', 'A2', 'A2x', 'B3')}
            app.add_hook('before_request', b['B1'])
            app.on('before_request', b['B2'])
            app.on('after_request', b['A1'])
            app.add_hook('after_request', b['A2'])
            h = ['handler'] if route == 'found' else []
            steps = [
                (None, ['B1', 'B2'] + h + ['A2', 'A1']),
                (lambda: (app.remove_hook('before_request', b['B2']), app.add_hook('before_request', b['B2x'])), ['B1', 'B2x'] + h + ['A2', 'A1']),
                (lambda: (app.remove_hook('after_request', b['A2']), app.add_hook('after_request', b['A2x'])), ['B1', 'B2x'] + h + ['A2x', 'A1']),
                (lambda: (app.remove_hook('before_request', b['B1']), app.add_hook('before_request', b['B3'])), ['B2x', 'B3'] + h + ['A2x', 'A1']),
                (None, ['B2x', 'B3'] + h + ['A2x', 'A1']),
            ]
            for k, (edit, exp) in enumerate(steps):
                if edit:
                    edit()
                del tr[:]
                r = call_app(app, make_environ(method, '/found' if route == 'found' else '/missing'))
                ctx.count('programs')
                ctx.count('hook_traces_checked')
                ctx.count('hooks_replaced_between_requests')
                ctx.case(('hooks-replaced', route, method, k), nontrivial=True)
                if r.escaped is not None or r.sr_calls != 1 or r.problems:
                    ctx.violation('malformed-wsgi-response:self-modifying-hooks', f'hooks replaced, {route} {method} request {k}: {r.escaped!r} {r.problems}', {'unit': {'kind': 'selfmod'}})
                elif tr != exp:
                    ctx.violation('hook-or-handler-trace-differs:replaced-between-requests', f'{route} {method} request {k + 1}: expected {exp}, observed {tr}', {'unit': {'kind': 'selfmod'}})
    ctx.sample({'self_modifying_hooks': HOOKS_SELFMOD, 'requests_per_configuration': 3})


BAD_STATUSES = [99, 0, -1, 1000, 10 ** 6, '200', 'abc def', '99 Too Low', '1000 Too High', '', ' ']
EDGE_STATUSES = [100, 101, 199, 200, 399, 600, 998, 999, '999 Last', '100 First']


def badstatus_unit(ctx, unit):
    """A handler that chooses a status outside 100..999 (or a status string without a code and reason) fails like any other failing
    handler: one well-formed 500, hooks as usual.  Codes at the edges of the range are served as chosen."""
    import ombott
    from ombott import HTTPResponse, HTTPError
    for S in BAD_STATUSES + EDGE_STATUSES:
        for how in ('response.status', 'HTTPResponse returned', 'HTTPResponse raised', 'HTTPError raised', 'abort'):
            for method in ('GET', 'HEAD'):
                app = ombott.Ombott()
                tr = []
                app.add_hook('before_request', lambda: tr.append('B'))
                app.on('after_request', lambda: tr.append('A'))

                def h():
                    tr.append('handler')
                    if how == 'response.status':
                        app.response.status = S
                        return 'body'
                    if how == 'HTTPResponse returned':
                        return HTTPResponse('body', S)
                    if how == 'HTTPResponse raised':
                        raise HTTPResponse('body', S)
                    if how == 'HTTPError raised':
                        raise HTTPError(S, 'body')
                    ombott.abort(S, 'body')
                app.route('/s', ['GET', 'HEAD'], h)
                r = call_app(app, make_environ(method, '/s'))
                bad = S in BAD_STATUSES
                ctx.count('programs')
                ctx.count('out_of_range_statuses' if bad else 'edge_statuses')
                ctx.case(('badstatus', repr(S), how, method), nontrivial=True)
                wit = {'unit': {'kind': 'note', 'status_chosen': repr(S), 'how': how, 'method': method}}
                where = f'status {S!r} chosen through {how} ({method})'
                if r.escaped is not None or r.sr_calls != 1 or r.problems:
                    ctx.violation('malformed-wsgi-response:' + (r.problems[0].split(':')[0][:40] if r.problems else 'escaped-or-start_response'), f'{where}: {r.escaped!r} {r.problems} sr={r.sr_calls}', wit)
                    continue
                ctx.count('sr_once')
                exp = 500 if bad else code_of(S)
                if not S and how != 'response.status':
                    # a falsy status given to a constructor means "not given": the class default (200 / 500)
                    exp = 200 if how.startswith('HTTPResponse') else 500
                    bad = False
                if r.code != exp:
                    ctx.violation(f'status-differs-from-program:{exp}->{r.code}' if not bad else f'out-of-range-status-answered-{r.code}', f'{where}: {r.status}', wit)
                    continue
                if tr != ['B', 'handler', 'A']:
                    ctx.violation('hook-or-handler-trace-differs:bad-status', f'{where}: {tr}', wit)
                fr = check_framing(r, method)
                if fr:
                    ctx.violation('framing:' + str(fr[0]).split(':')[0][:40], f'{where}: {fr}', wit)
    ctx.sample({'out_of_range_statuses': [repr(s) for s in BAD_STATUSES], 'edge_statuses': [repr(s) for s in EDGE_STATUSES]})


def bigbody_unit(ctx, unit):
    """Bodies around and beyond 64 KiB / 1 MiB, in every shape a handler may return them: Content-Length and bytes agree, nothing is lost."""
    import ombott
    from ombott import HTTPResponse, HTTPError
    sizes = [65535, 65536, 65537, 100000, 131072, 131073, 200001, (1 << 20) - 1, (1 << 20) + 3]
    for n in sizes:
        text = ('0123456789abcdef' * (n // 16 + 1))[:n]
        for shape in ('str', 'bytes', 'HTTPResponse', 'HTTPError page', 'list of two', 'generator', 'str non-ascii'):
            for method in ('GET', 'HEAD'):
                app = ombott.Ombott()
                closed = []
                if shape == 'str non-ascii':
                    want = ('\xe9' + text[1:]).encode('utf8')
                else:
                    want = text.encode()

                def h():
                    if shape == 'str':
                        return text
                    if shape == 'str non-ascii':
                        return '\xe9' + text[1:]
                    if shape == 'bytes':
                        return text.encode()
                    if shape == 'HTTPResponse':
                        return HTTPResponse(text, 201)
                    if shape == 'HTTPError page':
                        raise HTTPError(418, text)
                    if shape == 'list of two':
                        return [text[:70000], text[70000:]]

                    def g():
                        yield text[:n // 3]
                        yield text[n // 3:]
                    return g()
                app.route('/big', ['GET', 'HEAD'], h)
                r = call_app(app, make_environ(method, '/big'))
                ctx.count('programs')
                ctx.count('bodies_of_64KiB_and_more')
                ctx.case(('bigbody', n, shape, method), nontrivial=True)
                wit = {'unit': {'kind': 'note', 'body_bytes': n, 'shape': shape, 'method': method}}
                where = f'{shape} body of {n} characters ({method})'
                if r.escaped is not None or r.sr_calls != 1 or r.problems:
                    ctx.violation('malformed-wsgi-response:big-body', f'{where}: {r.escaped!r} {r.problems}', wit)
                    continue
                ctx.count('sr_once')
                fr = check_framing(r, method)
                if fr:
                    ctx.violation('content-length-differs-from-bytes-returned' if any('Content-Length' in x for x in fr) else 'framing:' + str(fr[0]).split(':')[0][:40], f'{where}: {fr}', wit)
                    continue
                ctx.count('content_length_checked')
                if method == 'GET' and shape != 'HTTPError page' and r.body != want:
                    ctx.violation('big-body-differs-from-what-the-handler-returned', f'{where}: {len(r.body)} bytes returned, {len(want)} expected', wit)
                elif method == 'GET' and shape == 'HTTPError page' and text.encode() not in r.body:
                    ctx.violation('big-body-differs-from-what-the-handler-returned', f'{where}: the error page does not carry the whole text ({len(r.body)} bytes)', wit)
    ctx.sample({'body_sizes': sizes, 'shapes': 7})


def programs(tier):
    for hooks, errh in itertools.product(HOOKS, ERRH + (ERRH_MORE if tier == 'thorough' else [])):
        for route in ROUTES:
            kinds = KINDS if route == 'found' else ['str']
            for kind in kinds:
                for method in METHODS:
                    statuses = STATUSES if route == 'found' else [200]
                    for S in statuses:
                        base = dict(kind=kind, method=method, status=S, hooks=hooks, errh=errh, route=route)
                        yield base
                        if kind in ('filelike', 'filelike_noclose', 'realfile_positioned'):
                            yield dict(base, file_wrapper=True)
                        if tier == 'thorough':
                            if kind in PLAIN_BODY:
                                yield dict(base, own_cl=True)
                            if kind in ('str_nonascii', 'list_str', 'gen_str'):
                                yield dict(base, charset='utf-16-le')
                            if kind in ('err_raised', 'exception', 'str') or route != 'found':
                                yield dict(base, json=True)


def plan(tier, seed):
    combos = list(itertools.product(HOOKS, ERRH + (ERRH_MORE if tier == 'thorough' else [])))
    return [{'kind': 'product', 'hooks': h, 'errh': e, 'tier': tier} for h, e in combos] + [{'kind': 'selfmod'}, {'kind': 'badstatus'}, {'kind': 'bigbody'}]


def product_unit(ctx, unit):
    W = make_world(unit['hooks'], unit['errh'])
    for p in programs(unit['tier']):
        if p['hooks'] != unit['hooks'] or p['errh'] != unit['errh']:
            continue
        run_program(ctx, W, p)


def run_unit(ctx, unit):
    if unit['kind'] == 'product':
        product_unit(ctx, unit)
    elif unit['kind'] == 'selfmod':
        selfmod_unit(ctx, unit)
    elif unit['kind'] == 'badstatus':
        badstatus_unit(ctx, unit)
    elif unit['kind'] == 'bigbody':
        bigbody_unit(ctx, unit)
    elif unit['kind'] == 'note':
        print('  witness:', unit)
    else:
        p = unit['program']
        W = make_world(p['hooks'], p['errh'])
        print('  reference:', reference(p))
        run_program(ctx, W, p)
        print('  observed trace:', W['trace'])
