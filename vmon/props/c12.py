"""C12 - malformed request bodies yield client errors, never server faults.

Every request is one body under one framing and content type, read by one accessor (forms,
files, POST, params, json, body) inside a handler behind Ombott.__call__.  Monitors:
  * status class (2xx or 4xx only), nothing escaping, no traceback on wsgi.errors;
  * a logical step budget on sys.monitoring LINE events inside ombott/ (never wall-clock);
  * an independent splitter over the raw body (stretches between consecutive CRLF--boundary
    occurrences) giving the set of delimiter-terminated parts: a delivered field or upload must
    be the complete data of one of them.
"""
import json
import os
import re
from vmon.wsgi import make_environ, call_app, RecStream, chunk_encode
from vmon.probes import StepCounter, BudgetExceeded

RULE = ('bodies: random bytes; grammar-mutated multipart (truncation at every offset, missing/duplicated/garbled delimiters, delimiter followed by '
        'junk, preamble, headers without colon / without name / empty value / non-UTF-8 / bare CR or LF / oversized / lower-case, byte-level '
        'insert-delete-substitute), content types (wrong case, no boundary, empty/quoted/mismatching boundary, multipart/mixed); JSON (invalid, '
        'non-object, empty, non-UTF-8, nested to depth 100000, NaN, huge numbers); urlencoded junk; x framing (Content-Length exact/short/long/not a number, '
        'chunked valid and malformed) x max_memfile_size x accessor {forms, files, POST, params, json, body}. Non-trivial = the body is not a '
        'well-formed instance of its content type; distinct = distinct (content type, body, framing, accessor, buffer).')
PYOPT = {'quick': 1, 'thorough': 1}     # one unit of every kind is also served by an interpreter started with -O (assert statements compiled out)
REQUIRED = ['units_run_under_python_-O', 'requests_with_a_narrow_error_log', 'request_class_used_directly', 'requests_with_max_body_size', 'malformed_content_length_header', 'cpu_budget_requests', 'requests', 'status_2xx', 'status_4xx', 'multipart_mutations', 'truncations', 'json_bodies', 'urlencoded_bodies', 'random_bytes_bodies',
            'chunked_malformed_framing', 'delivered_fields_checked', 'step_budget_armed', 'accessor_forms', 'accessor_files', 'accessor_json',
            'accessor_body', 'accessor_POST', 'header_mutations', 'content_type_mutations']
ASSUMPTIONS = ['a statement that never returns from C code (regular-expression engine) is invisible to LINE events: pathological header shapes are served in a child under RLIMIT_CPU = 40 CPU seconds (measured need < 2); CPU time, not wall-clock',
               'step budget = 60000 + 600 line events per body byte (measured need: <= 60 per byte in the worst configuration)',
               'a delivered value is compared with the parts an independent splitter finds between consecutive delimiters of the sent body',
               'chunked framing is used with buffers that can hold a size line']

B = 'XbX'
DELIM = b'\r\n--' + B.encode()


def base_body(rng):
    parts = []
    n = rng.choice([1, 2, 2, 3])
    for i in range(n):
        if i and rng.random() < 0.3:
            i -= 1                  # the name of the part before: repeated names are collected in lists
        if rng.random() < 0.15:
            # a text field with a non-ASCII name whose value is not UTF-8 (Shift-JIS, Latin-1): refused as a client error - whatever the
            # refusal likes to quote from the request
            parts.append((f'Content-Disposition: form-data; name="名前é{i}"', rng.choice([b'\x96\xbc\x91O', b'caf\xe9', b'\xff\xfe\x00'])))
        elif rng.random() < 0.5:
            parts.append((f'Content-Disposition: form-data; name="t{i}"', rng.choice([b'v', b'text value', 'é日本'.encode(), b'', b'a\r\nb', b'--Xb', b'x' * 40])))
        else:
            # (a file input left empty is sent as a part with filename="" and no data)
            fn = rng.choice([f'f{i}.bin', f'f{i}.bin', '', ' ', f'é{i}.bin'])
            parts.append((f'Content-Disposition: form-data; name="f{i}"; filename="{fn}"\r\nContent-Type: application/octet-stream',
                          rng.choice([b'DATA', b'\x00\xff\xfe', b'\r\n--Xb', b'', bytes(range(64))]) if fn else rng.choice([b'', b'', b'x\x00y'])))
    out = bytearray()
    for h, d in parts:
        out += b'--' + B.encode() + b'\r\n' + h.encode() + b'\r\n\r\n' + d + b'\r\n'
    out += b'--' + B.encode() + b'--\r\n'
    return bytes(out), parts


HEADER_MUTS = [
    ('no_colon', lambda h: h.replace(':', ' ', 1)),
    ('no_name', lambda h: re.sub(r' name="[^"]*";?', '', h, 1)),
    ('empty_value', lambda h: h.split(':', 1)[0] + ':'),
    ('only_colon', lambda h: ':'),
    ('non_utf8', lambda h: h.replace('name="', 'name="\udcff\udcfe', 1)),
    ('bare_cr', lambda h: h.replace(';', ';\r', 1)),
    ('bare_lf', lambda h: h.replace(';', ';\n', 1)),
    ('oversized', lambda h: h + '; x="' + 'y' * 5000 + '"'),
    ('lower_case_name', lambda h: h.replace('Content-Disposition', 'content-disposition')),
    ('no_disposition', lambda h: 'X-Other: 1'),
    ('unquoted', lambda h: h.replace('"', '')),
    ('unterminated_quote', lambda h: h.rstrip('"')),
    ('empty_name', lambda h: re.sub(r'name="[^"]*"', 'name=""', h, 1)),
    ('name_no_value', lambda h: re.sub(r'name="[^"]*"', 'name', h, 1)),
    ('double_colon', lambda h: h.replace(':', '::', 1)),
    ('nul', lambda h: h.replace('form-data', 'form\x00data', 1)),
    ('blank_line_first', lambda h: '\r\n' + h),
    ('space_only', lambda h: ' '),
    ('eq_only', lambda h: 'Content-Disposition: ='),
    ('semicolons', lambda h: 'Content-Disposition: ;;;'),
    # extended / continued parameters (RFC 5987 / 2231 spellings), well-formed and not
    ('ext_param_ok', lambda h: h + "; filename*=UTF-8''%e2%82%ac.txt"),
    ('ext_param_no_quotes', lambda h: h + '; filename*=report.txt'),
    ('ext_param_one_quote', lambda h: h + "; filename*=UTF-8'x"),
    ('ext_param_empty', lambda h: h + '; filename*=""'),
    ('ext_param_bad_charset', lambda h: h + "; filename*=bogus-8''x"),
    ('ext_param_bad_bytes', lambda h: h + "; filename*=UTF-8''%ff%fe"),
    ('ext_param_bad_percent', lambda h: h + "; filename*=UTF-8''%zz%"),
    ('ext_name', lambda h: re.sub(r'name="([^"]*)"', r"name*=UTF-8''\1", h, 1)),
    ('ext_name_plain', lambda h: re.sub(r'name="([^"]*)"', r'name*=\1', h, 1)),
    ('continued_param', lambda h: re.sub(r'name="([^"]*)"', r'name*0="\1"; name*1="x"', h, 1)),
    ('star_only', lambda h: h + '; *=x; **; =*'),
    ('empty_filename', lambda h: re.sub(r'filename="[^"]*"', 'filename=""', h, 1) if 'filename' in h else h + '; filename=""'),
    ('filename_no_value', lambda h: re.sub(r'filename="[^"]*"', 'filename', h, 1) if 'filename' in h else h + '; filename'),
]


def mutate_multipart(rng):
    """-> (body bytes, mutation class)"""
    body, parts = base_body(rng)
    k = rng.choice(['truncate', 'truncate', 'header', 'header', 'header', 'delim', 'bytes', 'structure', 'none'])
    if k == 'none':
        return body, 'wellformed'
    if k == 'truncate':
        return body[:rng.randint(0, len(body) - 1)], 'truncate'
    if k == 'header':
        name, fn = rng.choice(HEADER_MUTS)
        out = bytearray()
        target = rng.randrange(len(parts))
        for i, (h, d) in enumerate(parts):
            if i == target:
                h = fn(h)
            out += b'--' + B.encode() + b'\r\n' + h.encode('utf8', 'surrogateescape') + b'\r\n\r\n' + d + b'\r\n'
        out += b'--' + B.encode() + b'--\r\n'
        return bytes(out), 'header:' + name
    if k == 'delim':
        d = b'--' + B.encode()
        choice = rng.choice(['missing_final', 'no_terminator', 'duplicated', 'garbled', 'junk_after', 'preamble', 'lf_only', 'no_first', 'only_close', 'triple_hyphen', 'cr_only'])
        if choice == 'missing_final':
            return body[:body.rfind(d)], 'delim:missing_final'
        if choice == 'no_terminator':
            return body[:body.rfind(b'--\r\n')] + b'\r\n', 'delim:no_terminator'
        if choice == 'duplicated':
            return body.replace(d + b'\r\n', d + b'\r\n' + d + b'\r\n', 1), 'delim:duplicated'
        if choice == 'garbled':
            i = body.find(d, 1)
            return (body[:i + 3] + b'#' + body[i + 4:]) if i > 0 else body, 'delim:garbled'
        if choice == 'junk_after':
            return body.replace(d + b'\r\n', d + rng.choice([b'junk\r\n', b' \r\n', b'-\r\n', b'\r\r\n', b'\n', b'-x', b'\rX']), 1), 'delim:junk_after'
        if choice == 'preamble':
            return rng.choice([b'preamble\r\n', b'\r\n', b'-', b'\r', b'x']) + body, 'delim:preamble'
        if choice == 'lf_only':
            return body.replace(b'\r\n', b'\n'), 'delim:lf_only'
        if choice == 'cr_only':
            return body.replace(b'\r\n', b'\r'), 'delim:cr_only'
        if choice == 'no_first':
            return body[len(d) + 2:], 'delim:no_first'
        if choice == 'only_close':
            return d + b'--' + rng.choice([b'', b'\r\n', b'\r', b'-', b'--\r\n']), 'delim:only_close'
        return body.replace(d + b'--', d + b'---', 1), 'delim:triple_hyphen'
    if k == 'bytes':
        b = bytearray(body)
        for _ in range(rng.randint(1, 4)):
            op = rng.random()
            pos = rng.randrange(len(b) + 1) if b else 0
            sym = rng.choice([b'\r', b'\n', b'-', b':', b';', b'=', b'"', b'X', b'b', b'\x00', b'\xff', b'--' + B.encode(), b'\r\n\r\n', b'\r\n'])
            if op < 0.4:
                b[pos:pos] = sym
            elif op < 0.7 and b:
                del b[pos:pos + rng.randint(1, 3)]
            elif b:
                b[pos:pos + 1] = sym
        return bytes(b), 'bytes'
    # structure
    choice = rng.choice(['headers_no_end', 'empty', 'only_boundary', 'part_without_headers', 'nested', 'huge_headers_count'])
    d = b'--' + B.encode()
    if choice == 'headers_no_end':
        return d + b'\r\nContent-Disposition: form-data; name="a"\r\n' + d + b'--\r\n', 'structure:headers_no_end'
    if choice == 'empty':
        return b'', 'structure:empty'
    if choice == 'only_boundary':
        return d + rng.choice([b'', b'\r\n', b'\r']), 'structure:only_boundary'
    if choice == 'part_without_headers':
        return d + b'\r\n\r\ndata\r\n' + d + b'--\r\n', 'structure:part_without_headers'
    if choice == 'nested':
        return d + b'\r\nContent-Disposition: form-data; name="a"\r\nContent-Type: multipart/mixed; boundary=in\r\n\r\n--in\r\n\r\nx\r\n--in--\r\n' + d + b'--\r\n', 'structure:nested'
    return d + b'\r\n' + b''.join(b'X-H%d: v\r\n' % i for i in range(300)) + b'Content-Disposition: form-data; name="a"\r\n\r\nv\r\n' + d + b'--\r\n', 'structure:many_headers'


CTYPES_MP = [('multipart/form-data; boundary=' + B, 'ok'), ('Multipart/Form-Data; boundary=' + B, 'case'), ('MULTIPART/FORM-DATA; BOUNDARY=' + B, 'case_all'),
             ('multipart/form-data', 'no_boundary'), ('multipart/form-data; boundary=', 'empty_boundary'), ('multipart/form-data; boundary="' + B + '"', 'quoted_boundary'),
             ('multipart/form-data; boundary=other', 'mismatch'), ('multipart/mixed; boundary=' + B, 'mixed'), ('multipart/form-data; charset=utf-8; boundary=' + B, 'param_first'),
             ('multipart/form-data; boundary=' + B + '; charset=utf-8', 'param_after'), ('multipart/', 'bare'), ('multipart/form-data;boundary=' + B, 'no_space'),
             ('multipart/form-data; boundary=a\rb', 'cr_in_boundary'), ('multipart/form-data; boundary=' + 'z' * 300, 'long_boundary'),
             # boundary parameters outside ASCII: a Latin-1 byte, UTF-8 bytes in their WSGI (Latin-1) form, text above U+00FF
             ('multipart/form-data; boundary=caf\xe9', 'latin1_boundary'), ('multipart/form-data; boundary=b\xc3\xbccher', 'utf8_boundary'),
             ('multipart/form-data; boundary=\u0433\u0440\u0430\u043d\u0438\u0446\u0430', 'cyrillic_boundary'), ('multipart/form-data; boundary=' + B + '\xff', 'ff_after_boundary')]

JSON_BODIES = [b'{', b'}', b'{"a":', b'[1,2', b'nul', b'{"a":1}x', b"{'a':1}", b'\xff\xfe', b'{"a":"\xff"}', b'', b' ', b'[]', b'[1,2,3]', b'1', b'"str"', b'null', b'true',
               b'NaN', b'{"a":NaN}', b'1e999', b'{"a":1,"a":2}', b'{"a":{"b":[1,{"c":null}]}}', b'{"k":"v"}', b'\xef\xbb\xbf{"a":1}', b'{"a":1}\n', b'[' * 100 + b']' * 100,
               b'[' * 100000, b'{"a":' * 20000 + b'1' + b'}' * 20000, b'9' * 5000, b'{"' + b'k' * 3000 + b'":1}', b'[[]', b'"\\ud800"', b'{"a":"\\u00e9"}', b'\x00', b'{"a":1}\x00']
CTYPES_JSON = ['application/json', 'application/json; charset=utf-8', 'application/JSON', 'application/json;charset=latin1', 'application/jsonx', 'application/json-patch+json']


def terminated_parts(body, boundary):
    """Independent splitter: data of every part that lies between two consecutive delimiter occurrences."""
    d = b'--' + boundary
    occ = []
    if body.startswith(d):
        occ.append((0, len(d)))
    pos = 0
    dd = b'\r\n' + d
    while True:
        i = body.find(dd, pos)
        if i < 0:
            break
        occ.append((i, i + len(dd)))
        pos = i + 1
    occ.sort()
    datas = set()
    for (s1, e1), (s2, e2) in zip(occ, occ[1:]):
        chunk = body[e1:s2]
        j = chunk.find(b'\r\n\r\n')
        if j >= 0:
            datas.add(chunk[j + 4:])
        # a delimiter may also be found later inside what the splitter took for a part: add every suffix after a header end
        k = j
        while k >= 0:
            k = chunk.find(b'\r\n\r\n', k + 1)
            if k >= 0:
                datas.add(chunk[k + 4:])
    # parts that end at a later delimiter (the parser may skip a look-alike the splitter counted)
    for a in range(len(occ)):
        for b in range(a + 2, min(len(occ), a + 6)):
            chunk = body[occ[a][1]:occ[b][0]]
            j = chunk.find(b'\r\n\r\n')
            if j >= 0:
                datas.add(chunk[j + 4:])
    return datas


def build_app(seen, B_mem, max_body):
    import ombott
    app = ombott.Ombott({'max_memfile_size': B_mem, 'max_body_size': max_body})

    def plain(v):
        if isinstance(v, list):
            return [plain(x) for x in v]
        if isinstance(v, str):
            return ('text', v)
        f = getattr(v, 'file', None)
        if f is not None:
            f.seek(0)
            return ('file', f.read())
        return ('other', repr(v))

    @app.route('/<acc>', method=['POST', 'PUT'])
    def h(acc):
        rq = app.request
        if acc == 'forms':
            seen['fields'] = {k: plain(v) for k, v in rq.forms.items()}
        elif acc == 'files':
            seen['fields'] = {k: plain(v) for k, v in rq.files.items()}
        elif acc == 'POST':
            seen['fields'] = {k: plain(v) for k, v in rq.POST.items()}
        elif acc == 'params':
            seen['fields'] = {k: plain(v) for k, v in rq.params.items()}
        elif acc == 'json':
            seen['json'] = repr(rq.json)[:100]
        elif acc == 'body':
            seen['body'] = rq.body.read()
        elif acc.endswith('_again'):
            # an audit hook (or a fallback in the handler) looked first and swallowed the refusal; then the handler proper asks
            base = acc[:-6]
            import ombott as _o

            def read_it():
                if base == 'body':
                    return rq.body.read()
                if base == 'json':
                    return repr(rq.json)[:100]
                return {k: plain(v) for k, v in getattr(rq, base).items()}
            try:
                seen['first'] = read_it()
            except _o.HTTPError as e:
                seen['first_error'] = e.status_code
            try:
                seen['second'] = read_it()
            except _o.HTTPError as e:
                seen['second_error'] = e.status_code
            if base != 'body':
                # whatever became of the form: the raw body is still there for the application to look at
                seen['body_after'] = rq.body.read()
            if 'second_error' in seen:
                raise _o.HTTPError(seen['second_error'], 'refused again')
        elif acc == 'all':
            seen['body'] = rq.body.read()
            seen['json'] = repr(rq.json)[:100]
            seen['fields'] = {k: plain(v) for k, v in rq.POST.items()}
        return 'ok'
    return app


_TB_RE = re.compile(r'File "([^"]+)", line (\d+), in (\S+)')


def fault_signature(errors, status):
    lines = [ln for ln in errors.strip().splitlines() if ln.strip()]
    exc = lines[-1].split(':')[0].strip().split('.')[-1] if lines else 'unknown'
    frames = _TB_RE.findall(errors)
    func = 'unknown'
    for fn, ln, name in reversed(frames):
        if '/ombott/' in fn:
            func = name
            break
    return f'server-fault-{status}:{exc}@{func}'


def do_request(ctx, sc, apps, rng, body, ctype, framing, acc, B_mem, mclass, boundary=None, max_body='pick'):
    if max_body == 'pick':
        max_body = rng.choice([None, None, None, 64, 150])     # config dimension: a configured body limit
    if max_body is not None:
        ctx.count('requests_with_max_body_size')
    key = (B_mem, max_body)
    if key not in apps:
        seen = {}
        apps[key] = (build_app(seen, B_mem, max_body), seen)
    app, seen = apps[key]
    seen.clear()
    policy = rng.choice(['full', 'full', ('rand', rng)])
    sent = body
    if framing == 'cl':
        env = make_environ('POST', '/' + acc, stream=RecStream(body, policy), content_length=len(body), content_type=ctype)
    elif framing == 'cl_short':
        # Content-Length larger than the data: the stream ends early
        env = make_environ('POST', '/' + acc, stream=RecStream(body, policy), content_length=len(body) + rng.randint(1, 50), content_type=ctype)
    elif framing == 'cl_less':
        n = rng.randint(0, len(body))
        sent = body[:n]
        env = make_environ('POST', '/' + acc, stream=RecStream(body, policy), content_length=n, content_type=ctype)
    elif framing == 'chunked':
        env = make_environ('POST', '/' + acc, stream=RecStream(chunk_encode(body, rng), policy), content_length=None, chunked=True, content_type=ctype)
    elif framing == 'cl_garbage':
        # malformed framing header: Content-Length that is not a (plain) number
        sent = None
        env = make_environ('POST', '/' + acc, stream=RecStream(body, policy), content_length=None, content_type=ctype,
                           extra={'CONTENT_LENGTH': rng.choice(['abc', '12abc', '1e3', '0x10', '5,5', '5.0', ' 7', '-1', '+3', '--', '1 2', '\u0661\u0662', '9' * 40, 'NaN', 'inf', '0b1', '١٢'])})
        ctx.count('malformed_content_length_header')
    elif framing == 'no_length':
        sent = b''
        env = make_environ('POST', '/' + acc, stream=RecStream(body, policy), content_length=None, content_type=ctype)
    else:   # malformed chunked framing
        enc = bytearray(chunk_encode(body, rng))
        how = rng.choice(['cut', 'badsize', 'nocrlf', 'garbage'])
        if how == 'cut':
            enc = enc[:rng.randint(0, max(0, len(enc) - 1))]
        elif how == 'badsize':
            enc[0:1] = b'z'
        elif how == 'nocrlf':
            i = enc.find(b'\r\n', enc.find(b'\r\n') + 2)
            if i >= 0:
                enc[i:i + 2] = b'XX'
        else:
            enc = bytearray(rng.randbytes(rng.randint(0, 30)))
        env = make_environ('POST', '/' + acc, stream=RecStream(bytes(enc), policy), content_length=None, chunked=True, content_type=ctype)
        ctx.count('chunked_malformed_framing')
        sent = None
    if (len(body) + B_mem) % 3 == 0:
        # the server's error log takes ASCII only (a client error writes nothing there; whatever a diagnostic would like to say must not turn it into a 500)
        from vmon.wsgi import NarrowLog
        env['wsgi.errors'] = NarrowLog(('ascii', 'cp1252', 'latin1')[len(body) % 3])
        ctx.count('requests_with_a_narrow_error_log')
    budget = 60000 + 600 * len(body)
    if mclass != 'replay-direct' and (len(body) + len(acc) + B_mem) % 5 == 0 and acc != 'all' or mclass == 'replay-direct':
        # the request class used on its own (no application around it): the same bytes, the same accessors;
        # what is not a success must be one of the framework's request errors (or an HTTP client error), nothing else
        direct_request(ctx, sc, env, body, ctype, framing, acc, B_mem, max_body, mclass, budget)
        return
    sc.arm(budget)
    ctx.count('step_budget_armed')
    try:
        r = call_app(app, env)
    except BudgetExceeded:
        sc.disarm()
        ctx.violation('step-budget-exceeded', f'{mclass} ctype={ctype!r} framing={framing} accessor={acc}: more than {budget} line events for {len(body)} body bytes',
                      wit(body, ctype, framing, acc, B_mem, max_body))
        return
    steps = sc.disarm()
    ctx.note_max('max_steps_per_body_byte_x10', int(10 * steps / max(1, len(body))) if len(body) > 50 else 0)
    ctx.count('requests')
    ctx.count('accessor_' + acc)
    where = f'[{mclass}] ctype={ctype!r} framing={framing} accessor={acc} memfile={B_mem} max_body_size={max_body} body={body[:120]!r}{"..." if len(body) > 120 else ""}'
    w = wit(body, ctype, framing, acc, B_mem, max_body)
    if isinstance(r.escaped, BudgetExceeded) or sc.tripped:
        ctx.violation('step-budget-exceeded', f'{where}: more than {budget} line events', w)
        return
    if r.escaped is not None:
        ctx.violation(f'exception-escapes:{type(r.escaped).__name__}', f'{where}: {r.escaped!r}', w)
        return
    if r.code is None or r.code >= 500 or r.code < 200:
        ctx.violation(fault_signature(r.errors, r.code), f'{where}: {r.status}: {r.errors.strip().splitlines()[-1][:200] if r.errors.strip() else ""}', w)
        return
    if acc.endswith('_again'):
        ctx.count('accessor_asked_again_after_a_swallowed_refusal' if 'first_error' in seen else 'accessor_asked_twice')
        # (observation, not a verdict: what an application sees that swallowed a refusal and asks again is not settled by the statement -
        #  the unchanged tree hands out the dictionaries as far as they were filled, and the rest of the stream for a refused chunked body)
        if 200 <= r.code < 300 and 'first' in seen and 'second' in seen and seen['first'] != seen['second']:
            ctx.violation('accessor-gives-another-result-when-asked-again', f'{where}: {str(seen.get("first"))[:80]!r} then {str(seen.get("second"))[:80]!r}', w)
            return
        if 'body_after' in seen and sent is not None and framing == 'cl' and seen['body_after'] != sent and r.code != 413 and seen.get('first_error') != 413:
            ctx.violation('raw-body-differs-after-the-form-was-read', f'{where}: {len(seen["body_after"])} bytes instead of {len(sent)} (first access: {seen.get("first_error", "ok")})', w)
            return
    if 200 <= r.code < 300:
        ctx.count('status_2xx')
    elif 400 <= r.code < 500:
        ctx.count('status_4xx')
        ctx.count(f'status_{r.code}')
        if 'Traceback' in r.errors:
            ctx.violation('traceback-on-wsgi.errors-for-client-error', f'{where}: {r.errors[-200:]}', w)
        return
    else:
        ctx.violation(f'unexpected-status-{r.code}', where, w)
        return
    # delivered fields must be complete delimiter-terminated parts
    if boundary is not None and sent is not None and 'fields' in seen and acc != 'params':
        parts = terminated_parts(sent, boundary)
        for name, v in seen['fields'].items():
            for item in (v if isinstance(v, list) else [v]):
                ctx.count('delivered_fields_checked')
                val = item[1].encode('utf8') if item[0] == 'text' else item[1]
                if item[0] == 'other':
                    continue
                if val not in parts:
                    ctx.violation('delivered-field-is-not-a-delimiter-terminated-part', f'{where}: field {name!r} = {val[:80]!r}; terminated parts {sorted(parts)[:6]}', w)
                    return


def direct_request(ctx, sc, env, body, ctype, framing, acc, B_mem, max_body, mclass, budget):
    import ombott
    from ombott.request_pkg.errors import RequestError
    w = wit(body, ctype, framing, acc, B_mem, max_body)
    w['unit']['direct'] = True
    where = f'[{mclass}, Request used directly] ctype={ctype!r} framing={framing} accessor={acc} memfile={B_mem} max_body_size={max_body} body={body[:120]!r}'
    ctx.count('request_class_used_directly')
    sc.arm(budget)
    try:
        rq = ombott.Request(env, config={'max_memfile_size': B_mem, 'max_body_size': max_body})
        if acc == 'forms':
            dict(rq.forms)
        elif acc == 'files':
            dict(rq.files)
        elif acc == 'POST':
            dict(rq.POST)
        elif acc == 'params':
            dict(rq.params)
        elif acc == 'json':
            rq.json
        else:
            rq.body.read()
        sc.disarm()
        ctx.count('direct_success')
    except BudgetExceeded:
        sc.disarm()
        ctx.violation('step-budget-exceeded', f'{where}: more than {budget} line events', w)
    except RequestError:
        sc.disarm()
        ctx.count('direct_request_error')
    except ombott.HTTPError as e:
        sc.disarm()
        if 400 <= e.status_code < 500:
            ctx.count('direct_http_client_error')
        else:
            ctx.violation(f'request-used-directly-raises-HTTPError-{e.status_code}', f'{where}: {e!r}', w)
    except Exception as e:  # noqa
        sc.disarm()
        ctx.violation(f'request-used-directly-raises-{type(e).__name__}', f'{where}: {e!r}', w)


def wit(body, ctype, framing, acc, B_mem, max_body=None):
    return {'unit': {'kind': 'one', 'body': body[:20000].decode('latin1'), 'ctype': ctype, 'framing': framing, 'acc': acc, 'B': B_mem, 'max_body': max_body,
                     'truncated_witness': len(body) > 20000}}


ACCS = ['forms', 'files', 'POST', 'params', 'json', 'body', 'all', 'forms_again', 'POST_again', 'json_again', 'body_again', 'files_again']
FRAMINGS = ['cl', 'cl', 'cl', 'chunked', 'cl_short', 'cl_less', 'bad_chunked', 'no_length', 'cl_garbage']


def multipart_unit(ctx, unit):
    rng = ctx.rng
    sc = StepCounter().install()
    apps = {}
    try:
        for i in range(unit['n']):
            body, mclass = mutate_multipart(rng)
            ct, ctclass = rng.choice(CTYPES_MP) if rng.random() < 0.25 else CTYPES_MP[0]
            if ctclass != 'ok':
                ctx.count('content_type_mutations')
                mclass += '+ctype:' + ctclass
            if mclass.startswith('header'):
                ctx.count('header_mutations')
            if mclass.startswith('truncate'):
                ctx.count('truncations')
            ctx.count('multipart_mutations')
            acc = rng.choice(['forms', 'files', 'POST', 'forms', 'files', 'POST', 'params', 'all', 'body', 'json', 'forms_again', 'POST_again', 'files_again', 'body_again'])
            framing = rng.choice(FRAMINGS)
            B_mem = rng.choice([102400, 102400, 256, 64, 16])
            if framing in ('chunked', 'bad_chunked') and B_mem < 64:
                B_mem = 256
            bnd = B.encode() if ctclass in ('ok', 'case', 'case_all', 'param_first', 'param_after', 'no_space') else None
            ctx.case((ct, body, framing, acc, B_mem), nontrivial=mclass != 'wellformed')
            do_request(ctx, sc, apps, rng, body, ct, framing, acc, B_mem, mclass, boundary=bnd)
            if i % 400 == 0:
                ctx.sample({'mutation': mclass, 'content_type': ct, 'framing': framing, 'accessor': acc, 'body': body[:160].decode('latin1')})
    finally:
        sc.uninstall()


def truncation_unit(ctx, unit):
    """every prefix of a few well-formed bodies x accessors"""
    rng = ctx.rng
    sc = StepCounter().install()
    apps = {}
    try:
        for _ in range(unit['bodies']):
            body, parts = base_body(rng)
            for L in range(len(body)):
                for acc in ('forms', 'files', 'POST'):
                    ctx.count('truncations')
                    ctx.count('multipart_mutations')
                    ctx.case(None, nontrivial=True)
                    do_request(ctx, sc, apps, rng, body[:L], CTYPES_MP[0][0], rng.choice(['cl', 'chunked']), acc, rng.choice([102400, 300]), 'truncate', boundary=B.encode())
    finally:
        sc.uninstall()


def other_unit(ctx, unit):
    rng = ctx.rng
    sc = StepCounter().install()
    apps = {}
    try:
        for i in range(unit['n']):
            k = rng.choice(['json', 'json', 'urlencoded', 'random', 'random_mp'])
            if k == 'json':
                body = rng.choice(JSON_BODIES)
                if rng.random() < 0.2:
                    body = bytes(rng.choice(b'{}[]",:0123456789.eE-+ntf\\u \xff') for _ in range(rng.randint(0, 30)))
                ct = rng.choice(CTYPES_JSON)
                acc = rng.choice(['json', 'json', 'POST', 'forms', 'params', 'body', 'all', 'files', 'json_again', 'forms_again'])
                ctx.count('json_bodies')
                mclass = 'json'
            elif k == 'urlencoded':
                body = bytes(rng.choice(b'a=&%+;\xff\x00 \r\nb1%zz%e9') for _ in range(rng.randint(0, 60)))
                ct = rng.choice(['application/x-www-form-urlencoded', 'application/x-www-form-urlencoded; charset=utf-8', '', 'text/plain', 'application/octet-stream'])
                acc = rng.choice(['forms', 'POST', 'params', 'files', 'body', 'json', 'forms_again', 'POST_again', 'json_again'])
                ctx.count('urlencoded_bodies')
                mclass = 'urlencoded'
            elif k == 'random':
                body = rng.randbytes(rng.choice([0, 1, 10, 100, 1000]))
                ct = rng.choice(['application/x-www-form-urlencoded', 'application/json', 'text/plain', '', 'application/octet-stream', '\xff', 'a' * 500])
                acc = rng.choice(ACCS)
                ctx.count('random_bytes_bodies')
                mclass = 'random'
            else:
                body = rng.randbytes(rng.choice([0, 1, 10, 100])) if rng.random() < 0.5 else bytes(rng.choice(b'\r\n-Xb:;="') for _ in range(rng.randint(0, 80)))
                ct = rng.choice(CTYPES_MP)[0]
                acc = rng.choice(ACCS)
                ctx.count('random_bytes_bodies')
                ctx.count('multipart_mutations')
                mclass = 'random_multipart'
            framing = rng.choice(FRAMINGS)
            B_mem = rng.choice([102400, 102400, 256, 64])
            if len(body) > 50000:
                framing = 'cl'
                B_mem = max(B_mem, 200000)
            ctx.case((ct, body, framing, acc, B_mem), nontrivial=True)
            do_request(ctx, sc, apps, rng, body, ct or None, framing, acc, B_mem, mclass)
            if i % 500 == 0:
                ctx.sample({'class': mclass, 'content_type': ct, 'framing': framing, 'accessor': acc, 'body': body[:80].decode('latin1')})
    finally:
        sc.uninstall()


def pathological_inputs():
    """(label, content type, body) with shapes that make a careless scanner or regular expression explode:
    long unterminated quotes, runs of separators, nested look-alikes.  Deterministic list."""
    out = []
    d = '--' + B

    def part(header_line):
        return (d + '\r\n' + header_line + '\r\n\r\nvalue\r\n' + d + '--\r\n').encode('utf8', 'replace')
    ct = CTYPES_MP[0][0]
    for k in (8, 16, 24, 32, 48, 64, 200, 2000):
        out.append((f'unterminated-quote-{k}', ct, part('Content-Disposition: form-data; name="' + 'a' * k)))
        out.append((f'unterminated-quote-semis-{k}', ct, part('Content-Disposition: form-data; name="' + 'a;' * k)))
        out.append((f'quote-run-{k}', ct, part('Content-Disposition: form-data; name=' + '"' * k)))
        out.append((f'escaped-quotes-{k}', ct, part('Content-Disposition: form-data; name="' + '\\"' * k)))
        out.append((f'param-run-{k}', ct, part('Content-Disposition: form-data; ' + 'x=y;' * k + ' name="n"')))
        out.append((f'equals-run-{k}', ct, part('Content-Disposition: form-data; name' + '=' * k)))
        out.append((f'semicolon-run-{k}', ct, part('Content-Disposition: form-data' + ';' * k)))
        out.append((f'quoted-pairs-{k}', ct, part('Content-Disposition: form-data; ' + 'a="b' * k)))
        out.append((f'blank-run-{k}', ct, part('Content-Disposition:' + ' ' * k + 'form-data;' + ' ' * k + 'name="n"')))
        out.append((f'colon-run-{k}', ct, part('Content-Disposition' + ':' * k + ' form-data; name="n"')))
        out.append((f'ctype-semicolons-{k}', 'multipart/form-data; boundary=' + ';' * k, part('Content-Disposition: form-data; name="n"')))
        out.append((f'ctype-boundary-run-{k}', 'multipart/' + 'boundary=' * k, part('Content-Disposition: form-data; name="n"')))
        out.append((f'ctype-long-subtype-{k}', 'multipart/' + 'x' * k + '; boundary=' + B, part('Content-Disposition: form-data; name="n"')))
        out.append((f'ctype-no-boundary-long-{k}', 'multipart/form-data; ' + 'a=b; ' * k, part('Content-Disposition: form-data; name="n"')))
        out.append((f'urlencoded-percent-run-{k}', 'application/x-www-form-urlencoded', b'%' * k + b'=' + b'%2' * k))
        out.append((f'urlencoded-separators-{k}', 'application/x-www-form-urlencoded', b'&=' * k))
        out.append((f'json-brackets-{k}', 'application/json', b'[' * k + b']' * (k // 2)))
        out.append((f'json-string-escapes-{k}', 'application/json', b'"' + b'\\' * k))
    return out


CPU_CHILD = r'''
import sys, os
sys.path.insert(0, os.environ['VERIF_REPO']); sys.path.insert(0, os.environ['VERIF_HERE'])
from vmon.props import c12
from vmon.wsgi import make_environ, call_app, RecStream
import ombott
seen = {}
app = c12.build_app(seen, 102400, None)
bad = []
for i, (label, ct, body) in enumerate(c12.pathological_inputs()):
    for acc in ('forms', 'files', 'POST', 'json', 'params'):
        print('RUN', i, label, acc, flush=True)
        r = call_app(app, make_environ('POST', '/' + acc, stream=RecStream(body), content_length=len(body), content_type=ct))
        if r.escaped is not None or r.code is None or r.code >= 500:
            print('FAULT', i, label, acc, r.status, flush=True)
print('DONE', flush=True)
'''


def cpu_unit(ctx, unit):
    """What LINE events cannot see: one statement that runs away inside the regular-expression engine (or another C
    function).  The pathological inputs are served in a child process under a CPU-time limit set with RLIMIT_CPU
    (CPU seconds of that process, not wall-clock: machine load does not consume it).  Measured need of the whole
    list: < 2 CPU seconds; limit 40."""
    import resource
    import subprocess
    import sys as _sys
    HERE = os.path.dirname(os.path.dirname(os.path.dirname(os.path.abspath(__file__))))
    limit = unit.get('cpu_s', 40)

    def lim():
        resource.setrlimit(resource.RLIMIT_CPU, (limit, limit + 5))
    env = dict(os.environ, VERIF_HERE=HERE, VERIF_REPO=os.environ.get('VERIF_REPO', '/repo'), PYTHONHASHSEED='0')
    p = subprocess.run([_sys.executable, '-c', CPU_CHILD], env=env, capture_output=True, text=True, preexec_fn=lim)
    lines = p.stdout.splitlines()
    runs = [ln for ln in lines if ln.startswith('RUN')]
    ctx.count('cpu_budget_requests', len(runs))
    ctx.count('requests', len(runs))
    for ln in runs:
        ctx.case(('cpu', ln), nontrivial=True)
    usage = resource.getrusage(resource.RUSAGE_CHILDREN)
    ctx.note_max('cpu_seconds_of_pathological_list_x10', int(10 * (usage.ru_utime + usage.ru_stime)))
    for ln in lines:
        if ln.startswith('FAULT'):
            ctx.violation('server-fault-on-pathological-header-shape', ln, {'unit': {'kind': 'note', 'line': ln}})
    if p.returncode != 0 or not lines or lines[-1] != 'DONE':
        last = runs[-1] if runs else '(none started)'
        if p.returncode in (-24, -9):      # SIGXCPU / SIGKILL at the hard limit
            ctx.violation('cpu-budget-exceeded:no-progress-inside-one-statement', f'the child serving the pathological inputs used more than {limit} CPU seconds; '
                          f'it was serving: {last}', {'unit': {'kind': 'note', 'last': last}})
        else:
            ctx.set_inconclusive(f'pathological-input child ended with {p.returncode}: {p.stderr[-400:]}')
    ctx.sample({'pathological_shapes': [lb for lb, _, _ in pathological_inputs()][:18], 'cpu_limit_s': limit})


def plan(tier, seed):
    if tier == 'quick':
        return ([{'kind': 'multipart', 'n': 1200, 'sub': i} for i in range(4)] + [{'kind': 'truncation', 'bodies': 2, 'sub': i} for i in range(2)]
                + [{'kind': 'other', 'n': 1000, 'sub': i} for i in range(2)] + [{'kind': 'cpu'}])
    return ([{'kind': 'multipart', 'n': 12000, 'sub': i} for i in range(20)] + [{'kind': 'truncation', 'bodies': 10, 'sub': i} for i in range(8)]
            + [{'kind': 'other', 'n': 8000, 'sub': i} for i in range(8)] + [{'kind': 'cpu'}])


def run_unit(ctx, unit):
    k = unit['kind']
    if k == 'multipart':
        multipart_unit(ctx, unit)
    elif k == 'truncation':
        truncation_unit(ctx, unit)
    elif k == 'other':
        other_unit(ctx, unit)
    elif k == 'cpu':
        cpu_unit(ctx, unit)
    elif k == 'note':
        print('  witness:', unit)
    else:
        sc = StepCounter().install()
        try:
            bnd = B.encode() if unit['ctype'] and B in unit['ctype'] and unit['ctype'].lower().startswith('multipart/form-data') else None
            do_request(ctx, sc, {}, ctx.rng, unit['body'].encode('latin1'), unit['ctype'], unit['framing'], unit['acc'], unit['B'],
                       'replay-direct' if unit.get('direct') else 'replay', boundary=bnd, max_body=unit.get('max_body'))
        finally:
            sc.uninstall()
