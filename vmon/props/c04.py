"""C04 - Content-Length bodies arrive byte-exact under any read fragmentation.

Oracle: body == data[:min(CL, len(data))]; RecStream log: no read(n) with n greater
than what Content-Length still allows, never more than CL bytes received, no read
at all without a Content-Length.  Metamorphic half: the same for every
fragmentation, buffer size and spill threshold.
"""
import io
from vmon.wsgi import RecBytesIO, RecStream, make_environ, call_app

RULE = ('tree units: every sequence of short-read decisions (stateless re-execution of the choice tree '
        'of RecStream) for every body length, Content-Length and buffer size inside the bound, through '
        '_body_read; random units: bodies up to 300 kB x CL below/equal/above x buffer sizes x fragmentation '
        'policies through Request.body and through Ombott.__call__. Non-trivial = at least one read was '
        'answered short or CL != len(data); distinct = distinct (len, CL, buffer, read-size sequence).')
PYOPT = {'quick': 1, 'thorough': 1}     # one unit of every kind is also served by an interpreter started with -O (assert statements compiled out)
REQUIRED = ['units_run_under_python_-O', 'input_stream_replaced_through_the_request', 'negative_content_length', 'body_of_a_request_copy_compared', 'multipart_content_type_on_arbitrary_bytes', 'short_read_cases', 'spilled_to_file', 'in_memory', 'early_eof_cases', 'longer_stream_cases',
            'wsgi_cases', 'rewind_checked']
EXHAUSTIVE = {'quick': False, 'thorough': False,
              'quick_note': 'tree units are exhaustive for body<=11, CL<=13, buffer<=5',
              'thorough_note': 'tree units are exhaustive for body<=15, CL<=17, buffer in 1..7 and 16'}
ASSUMPTIONS = ['wsgi.input.read(n) returns between 1 and n bytes while data is available and b"" only at EOF (PEP 3333)',
               'the code under test is the working tree of $VERIF_REPO']


def plan(tier, seed):
    if tier == 'quick':
        units = [{'kind': 'tree', 'maxbody': 11, 'cl_extra': 2, 'bufs': [1, 2, 3, 4, 5], 'lens': [n]} for n in range(0, 12)]
        units += [{'kind': 'random', 'n': 700, 'sub': i} for i in range(8)]
    else:
        units = []
        for n in range(0, 16):
            for b in ([1, 2], [3, 4], [5, 6], [7, 16]) if n > 11 else ([1, 2, 3, 4, 5, 6, 7, 16],):
                units.append({'kind': 'tree', 'maxbody': 15, 'cl_extra': 2, 'bufs': list(b), 'lens': [n]})
        units += [{'kind': 'random', 'n': 2500, 'sub': i} for i in range(32)]
    return units


def _payload(n, rng=None):
    if rng is None:
        return bytes((i * 37 + 11) % 251 for i in range(n))
    return bytes(rng.getrandbits(8) for _ in range(n)) if n < 4096 else rng.randbytes(n)


def _check_reads(ctx, stream, cl, where, wit):
    """The stream is never read beyond Content-Length."""
    got = 0
    for req, ret in stream.reads:
        allowed = max(cl, 0) - got
        if req < 0 or req > allowed:
            ctx.violation('over-read:read(n)-exceeds-remaining-content-length',
                          f'{where}: read({req}) while Content-Length allows {allowed} more bytes', wit)
            return
        got += ret
    if got > max(cl, 0):
        ctx.violation('over-read:received-more-than-content-length', f'{where}: received {got} > CL {cl}', wit)


def run_direct(ctx, data, cl, buf, decisions, default='one'):
    from ombott.request_pkg import body_mixin
    st = RecStream(data, ('list', decisions, default))
    body = body_mixin._body_read(st.read, buf, content_length=cl)
    body.seek(0)
    got = body.read()
    return st, body, got


def tree_unit(ctx, unit):
    for n in unit['lens']:
        data = _payload(n)
        for cl in range(0, n + unit['cl_extra'] + 1):
            for buf in unit['bufs']:
                exp = data[:min(cl, n)]
                decisions = []
                while True:
                    st, body, got = run_direct(ctx, data, cl, buf, decisions)
                    sizes = [r for _, r in st.reads if r]
                    maxima = []
                    pos = 0
                    for req, ret in st.reads:
                        if ret:
                            maxima.append(min(req, n - pos))
                            pos += ret
                    short = any(r < m for r, m in zip(sizes, maxima))
                    ctx.case(None, nontrivial=short or cl != n)
                    if short:
                        ctx.count('short_read_cases')
                    wit = {'unit': {'kind': 'one', 'data_len': n, 'cl': cl, 'buf': buf, 'decisions': sizes}}
                    if got != exp:
                        ctx.violation(
                            'content-length-body-differs-under-short-reads' if short else 'content-length-body-differs',
                            f'len={n} CL={cl} buf={buf} reads={st.reads}: got {len(got)} bytes {got[:20]!r}, expected {len(exp)} bytes', wit)
                    _check_reads(ctx, st, cl, f'len={n} CL={cl} buf={buf}', wit)
                    if len(ctx.samples) < 3 and short:
                        ctx.sample({'len': n, 'CL': cl, 'buf': buf, 'reads(requested,returned)': st.reads})
                    # odometer over the choice tree
                    i = len(sizes) - 1
                    while i >= 0 and sizes[i] >= maxima[i]:
                        i -= 1
                    if i < 0:
                        break
                    decisions = sizes[:i] + [sizes[i] + 1]
                ctx.count('tree_configs')


class PlainBytesIO:
    """Book-keeping around an io.BytesIO of exactly that type (code may test `type(x) is BytesIO`): what was consumed is read off
    its position afterwards."""

    def __init__(self, data, start):
        import io
        self.raw = io.BytesIO(data)
        self.raw.seek(start)
        self.start = start

    @property
    def reads(self):
        c = self.raw.tell() - self.start if not self.raw.closed else 0
        return [(c, c)] if c > 0 else []


def one_case(ctx, data, cl, buf, policy_desc, mode, rng=None, wit=None):
    """mode: 'direct' | 'request' | 'wsgi'"""
    import ombott
    from ombott.request_pkg import body_mixin
    n = len(data)
    exp = data[:min(max(cl, 0), n)] if cl is not None else b''
    kind, arg = policy_desc
    if kind == 'rand':
        import random
        policy = ('rand', random.Random(arg))
    elif kind == 'list':
        policy = ('list', arg)
    elif kind == 'boundary':
        # short only when the request is a full buffer
        policy = (lambda req, avail, _b=buf, _k=arg: max(1, req - _k) if req == _b else req)
    else:
        policy = kind
    st = RecStream(data, policy)
    if (n + buf) % 5 == 0:
        st.as_bytearray()
    elif (n + buf) % 5 == 1:
        st.as_reused_buffer_view()
    elif (n + buf) % 5 == 2 and mode != 'direct' and kind in ('full', 'rand', 'one'):
        # a real io.BytesIO (what test clients and buffering servers hand over), every other time positioned behind an earlier
        # pipelined request that sits in the same connection buffer
        prefix = b'POST /earlier HTTP/1.1\r\nContent-Length: 5\r\n\r\nfirst' if n % 2 else b''
        st = RecBytesIO(prefix + data, len(prefix)) if (n // 2) % 2 else PlainBytesIO(prefix + data, len(prefix))
        ctx.count('input_stream_is_a_real_BytesIO' + ('_positioned_past_an_earlier_request' if prefix else ''))
    wit = wit or {'unit': {'kind': 'one', 'data_len': n, 'cl': cl, 'buf': buf, 'policy': list(policy_desc), 'mode': mode,
                           'data_seed': None}}
    where = f'{mode} len={n} CL={cl} buf={buf} policy={policy_desc[0]}'
    body_type = None
    if mode == 'direct':
        body = body_mixin._body_read(st.read, buf, content_length=-1 if cl is None else cl)
        body.seek(0)
        got = body.read()
        body_type = type(body).__name__
        second = got
    else:
        # the raw body is byte-exact whatever the declared content type makes the framework do while buffering
        # (a multipart scanner runs beside the read loop and may reject what it sees)
        ctype = None
        if rng is not None:
            ctype = rng.choice([None, None, 'multipart/form-data; boundary=B', 'multipart/form-data; boundary=' + 'x' * 40, 'application/json',
                                'application/x-www-form-urlencoded', 'multipart/mixed; boundary="q"', 'text/plain; charset=utf-16'])
        elif wit and wit['unit'].get('ctype'):
            ctype = wit['unit']['ctype']
        if ctype:
            ctx.count('with_content_type')
            if ctype.startswith('multipart/'):
                ctx.count('multipart_content_type_on_arbitrary_bytes')
            wit['unit']['ctype'] = ctype
        env = make_environ('POST', '/b', stream=getattr(st, 'raw', st), content_length=cl, content_type=ctype)
        cfg = {'max_memfile_size': buf}
        if mode == 'request':
            req = ombott.Request(env, config=cfg)
            b = req.body
            body_type = type(b).__name__
            got = b.read()
            b.read(0)
            second = req.body.read()
            ctx.count('rewind_checked')
            # a copy of the request taken after the body was read presents the same body
            third = req.copy().body.read()
            ctx.count('body_of_a_request_copy_compared')
            if third != got:
                ctx.violation('body-of-a-request-copy-differs', f'{where}: the copy presents {len(third)} bytes, the request {len(got)}', wit)
            # the input stream is replaced through the request (a decoding or decrypting middleware-in-a-hook): the body is that of the new stream
            if cl is not None and cl >= 0 and n % 3 == 0:
                data2 = bytes(reversed(data))
                st2 = RecStream(data2, 'one' if n < 2000 else 'full')
                req['wsgi.input'] = st2
                fourth = req.body.read()
                ctx.count('input_stream_replaced_through_the_request')
                if fourth != data2[:min(cl, n)]:
                    ctx.violation('body-after-the-input-stream-was-replaced-is-not-the-new-stream', f'{where}: {len(fourth)} bytes, starting {fourth[:12]!r}, expected {data2[:12]!r}', wit)
            if env['wsgi.input'] is getattr(st, 'raw', st):
                ctx.violation('wsgi.input-not-replaced-by-buffered-copy', where, wit)
        else:
            app = ombott.Ombott(cfg)
            seen = {}

            @app.route('/b', method='POST')
            def h():
                b1 = app.request.body
                seen['type'] = type(b1).__name__
                seen['first'] = b1.read()
                b2 = app.request.body
                seen['second'] = b2.read()
                return 'ok'
            r = call_app(app, env)
            ctx.count('wsgi_cases')
            ctx.count('rewind_checked')
            if r.code != 200 or 'first' not in seen:
                ctx.violation('content-length-body-request-failed', f'{where}: status {r.status} errors={r.errors[-300:]}', wit)
                return
            got, second, body_type = seen['first'], seen['second'], seen['type']
    short = any(0 < ret < req for req, ret in st.reads)
    if short:
        ctx.count('short_read_cases')
    if cl is not None and cl > n:
        ctx.count('early_eof_cases')
    if cl is not None and cl < n:
        ctx.count('longer_stream_cases')
    if body_type == 'BytesIO':
        ctx.count('in_memory')
    else:
        ctx.count('spilled_to_file')
    if got != exp:
        ctx.violation('content-length-body-differs-under-short-reads' if short else 'content-length-body-differs',
                      f'{where}: got {len(got)} bytes, expected {len(exp)}; first reads {st.reads[:6]}', wit)
    elif second != got:
        ctx.violation('body-not-rewound-on-second-access', f'{where}: second access returned {len(second)} bytes', wit)
    _check_reads(ctx, st, -1 if cl is None else cl, where, wit)
    if cl is None and st.reads:
        ctx.violation('over-read:read-without-content-length', f'{where}: reads {st.reads[:4]}', wit)
    ctx.note_max('max_body_bytes', n)
    ctx.case((n, cl, buf, tuple(st.reads[:200]), mode), nontrivial=short or cl != n)
    return st


def random_unit(ctx, unit):
    rng = ctx.rng
    for i in range(unit['n']):
        size_class = rng.choice(['tiny', 'small', 'small', 'mid', 'big'])
        n = {'tiny': rng.randint(0, 8), 'small': rng.randint(0, 200), 'mid': rng.randint(200, 5000),
             'big': rng.randint(5000, 300000)}[size_class]
        dseed = rng.getrandbits(32)
        import random
        data = _payload(n, random.Random(dseed))
        clk = rng.choice(['eq', 'eq', 'below', 'above', 'zero', 'none', 'eq', 'negative'])
        cl = {'eq': n, 'below': rng.randint(0, n), 'above': n + rng.randint(1, 50), 'zero': 0, 'none': None, 'negative': -rng.choice([1, 2, 5, 64, max(1, n)])}[clk]
        if clk == 'negative':
            ctx.count('negative_content_length')     # as little a body as none: nothing may be read
        buf = rng.choice([1, 2, 3, 7, 16, 64, 1000, 4096, 102400, max(1, n - 1), n + 1, max(1, n)])
        if n > 20000 and buf < 16:
            buf = rng.choice([64, 1000, 8192])
        pk = rng.choice(['full', 'one', 'rand', 'rand', 'list', 'boundary'])
        if pk == 'one' and n > 20000:
            pk = 'rand'
        if pk == 'rand':
            pd = ('rand', rng.getrandbits(32))
        elif pk == 'list':
            pd = ('list', [rng.randint(1, max(1, buf)) for _ in range(rng.randint(1, 12))])
        elif pk == 'boundary':
            pd = ('boundary', rng.randint(1, 3))
        else:
            pd = (pk, None)
        mode = rng.choice(['direct', 'request', 'request', 'wsgi'])
        wit = {'unit': {'kind': 'one', 'data_len': n, 'cl': cl, 'buf': buf, 'policy': list(pd), 'mode': mode,
                        'data_seed': dseed}}
        st = one_case(ctx, data, cl, buf, pd, mode, rng=rng, wit=wit)
        if st is not None and len(ctx.samples) < 6 and i % 97 == 0:
            ctx.sample({'len': n, 'CL': cl, 'buf': buf, 'policy': pd[0], 'mode': mode, 'first_reads': st.reads[:5]})


def run_unit(ctx, unit):
    k = unit['kind']
    if k == 'tree':
        tree_unit(ctx, unit)
    elif k == 'random':
        random_unit(ctx, unit)
    elif k == 'one':
        import random
        n = unit['data_len']
        data = _payload(n, random.Random(unit['data_seed'])) if unit.get('data_seed') is not None else _payload(n)
        if 'decisions' in unit:
            st, body, got = run_direct(ctx, data, unit['cl'], unit['buf'], unit['decisions'], default='full')
            exp = data[:min(unit['cl'], n)]
            print(f'  reads={st.reads}\n  got={got!r}\n  expected={exp!r}')
            if got != exp:
                ctx.violation('content-length-body-differs-under-short-reads', 'replayed', None)
            _check_reads(ctx, st, unit['cl'], 'replay', None)
        else:
            one_case(ctx, data, unit['cl'], unit['buf'], tuple(unit['policy']), unit['mode'])
