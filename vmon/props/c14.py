"""C14 - response header values cannot split the response and are wire-safe.

Content monitor on every response object after every setter call: no emitted value may
contain CR, LF or NUL; a value containing one offered through a single-value setter must be
rejected; every emitted value is a str, Latin-1 encodable, that decodes back as UTF-8 to
str(original); multi-valued headers come out once per value in order; the per-status
blacklist (204, 304) withholds the entity headers.  Observed at BaseResponse.headerlist and
in the list handed to start_response by Ombott.__call__.
"""
import http.client
from vmon.wsgi import make_environ, call_app

RULE = ('values: text over ASCII / Latin-1 / BMP / astral planes with CR, LF, NUL (and other control characters as decoys) at start, '
        'middle, end, doubled, alone; int, float (inf, nan), bool, None, bytes, list, tuple, object, str/int subclasses with a hostile '
        '__str__; x entry points: item assignment, append, setdefault, content_type / content_length / expires attributes, constructor '
        'headers= (dict, pair list, and other iterables: dict view, generator, zip, iterator), **more_headers, HTTPResponse(...), HTTPError(..., **options), raised/returned through '
        'Ombott.__call__, Response.copy(); x response classes Response / HTTPResponse / HTTPError; x every status in '
        'http.client.responses for the blacklist. Non-trivial = the value contains a control character or a non-ASCII character or is '
        'not a str; distinct = distinct (entry point, class, repr(value)).')
PYOPT = {'quick': 1, 'thorough': 1}     # one unit of every kind is also served by an interpreter started with -O (assert statements compiled out)
REQUIRED = ['units_run_under_python_-O', 'responses_with_many_header_lines', 'values_that_cannot_be_utf8_encoded', 'unencodable_value_refused', 'length_sweep_cases', 'header_lists_compared_with_model', 'header_reads_compared', 'multi_valued_blacklist_checked', 'third_or_later_value_of_a_header', 'ctl_rejected', 'clean_accepted_and_roundtripped', 'non_ascii_roundtripped', 'multi_value_order_checked', 'blacklist_204',
            'blacklist_304', 'statuses_checked', 'wsgi_emissions', 'entry_setitem', 'entry_append', 'entry_setdefault', 'entry_attr',
            'entry_ctor_dict', 'entry_ctor_pairs', 'entry_ctor_iterable', 'response_inspected_after_a_rejection', 'entry_more_headers', 'entry_httperror_options', 'non_str_types']
ASSUMPTIONS = ['header names are ASCII tokens (the statement speaks of values)',
               'lone surrogates are not text and are left out; list values given to setdefault/update are not single-value setters',
               'the blacklist is checked for the canonical spellings the framework itself uses (HeaderDict is case-sensitive by design)']

CTL = ['\r', '\n', '\0']
DECOYS = ['\t', '\x0b', '\x0c', '\x1b', '\x7f', '\x85', ' ', ' ', ' ']
TEXTS = ['', 'a', 'text/plain', 'x y', 'é', 'ÿ', 'naïve café', '日本語', '‰', '\U0001f600', 'á', 'Ünïcödé \U0001f40d', '"q"', 'a;b=c', '€uro',
         'ÃƒÂ©', '\xa0', '0', 'None', 'bytes 0-1/2']
NAMES = ['X-Test', 'Content-Type', 'X-A', 'Set-Thing', 'Location', 'Content-Disposition', 'Vary']


class EvilStr(str):
    def __str__(self):
        return 'evil\r\nInjected: 1'


class EvilInt(int):
    def __str__(self):
        return '5\r\nInjected: 1'

    __repr__ = __str__


class Obj:
    def __str__(self):
        return 'obj\r\nInjected: 1'


def has_ctl(s):
    return any(c in s for c in CTL)


def gen_value(rng):
    r = rng.random()
    if r < 0.45:
        base = rng.choice(TEXTS)
        c = rng.choice(CTL + CTL + DECOYS) if rng.random() < 0.8 else rng.choice(CTL) * 2
        pos = rng.choice(['start', 'middle', 'end', 'alone', 'inject'])
        if pos == 'start':
            return c + base
        if pos == 'end':
            return base + c
        if pos == 'alone':
            return c
        if pos == 'inject':
            return base + c + ('\n' if c == '\r' else '') + 'Set-Cookie: pwn=1'
        k = rng.randint(0, len(base))
        return base[:k] + c + base[k:]
    if r < 0.7:
        return rng.choice(TEXTS) + rng.choice(['', rng.choice(TEXTS)])
    return rng.choice([0, 1, -5, 10**30, 1.5, -0.0, float('inf'), float('nan'), 1e-7, True, False, None, b'bytes', b'a\r\nb',
                       ['a', 'b'], ('a',), Obj(), {'a': 1}, EvilStr('ok'), EvilInt(5), 3 + 4j, bytearray(b'x'), object])


def make_entry(rng, ombott):
    """-> (entry name, cls name, callable(name, value) -> response object; raises if the setter rejects)"""
    from ombott.response import BaseResponse, Response, HTTPResponse, HTTPError
    classes = {'Response': Response, 'HTTPResponse': HTTPResponse, 'HTTPError': HTTPError}   # BaseResponse itself is abstract (empty __slots__)
    cname = rng.choice(list(classes))
    cls = classes[cname]

    def new():
        # BaseResponse/Response take no constructor arguments in this code base (object.__new__ refuses them)
        if cls in (BaseResponse, Response):
            return cls()
        return cls(500, 'b') if cls is HTTPError else cls('b')

    entry = rng.choice(['setitem', 'append', 'setdefault', 'attr', 'ctor_dict', 'ctor_pairs', 'ctor_iterable', 'more_headers', 'httperror_options', 'copy'])
    pre = rng.randint(0, 4)      # how many clean values the same header already holds (append / pair list)
    box = {'new': new}           # the response object the setter was applied to: inspected also after a rejection

    if entry == 'setitem':
        def f(n, v):
            r = box['r'] = new()
            box['name'], box['kept'] = n, []
            r.headers[n] = v
            return r, n
    elif entry == 'append':
        def f(n, v):
            r = box['r'] = new()
            for k in range(pre):
                r.headers.append(n, 'v%d' % k)
            box['name'], box['kept'] = n, ['v%d' % k for k in range(pre)]
            r.headers.append(n, v)
            return r, n
    elif entry == 'setdefault':
        def f(n, v):
            r = box['r'] = new()
            box['name'], box['kept'] = n, []
            r.headers.setdefault(n, v)
            return r, n
    elif entry == 'attr':
        attr = rng.choice(['content_type', 'content_length', 'expires'])

        def f(n, v, attr=attr):
            r = box['r'] = new()
            real = {'content_type': 'Content-Type', 'content_length': 'Content-Length', 'expires': 'Expires'}[attr]
            box['name'], box['kept'] = real, None       # None: whatever a fresh response emits for that header
            setattr(r, attr, v)
            return r, real
    elif entry == 'ctor_iterable':
        shape = rng.choice(['dict_items', 'generator', 'zip', 'iterator', 'tuple_of_lists'])

        def f(n, v, shape=shape):
            pairs = [(n, 'v%d' % k) for k in range(pre)] + [(n, v)]
            if shape == 'dict_items':
                f.pre = 0
                h = {n: v}.items()
            elif shape == 'generator':
                h = ((a, b) for a, b in pairs)
            elif shape == 'zip':
                h = zip([a for a, _ in pairs], [b for _, b in pairs])
            elif shape == 'iterator':
                h = iter(pairs)
            else:
                h = tuple([a, b] for a, b in pairs)
            if cls is HTTPError:
                return HTTPError(500, 'b', headers=h), n
            return cls('b', 200, h), n
    elif entry == 'ctor_dict':
        def f(n, v):
            if cls is HTTPError:
                return HTTPError(500, 'b', headers={n: v}), n
            return cls('b', 200, {n: v}), n
    elif entry == 'ctor_pairs':
        def f(n, v):
            pairs = [(n, 'v%d' % k) for k in range(pre)] + [(n, v)]
            if cls is HTTPError:
                return HTTPError(500, 'b', headers=pairs), n
            return cls('b', 200, pairs), n
    elif entry == 'more_headers':
        def f(n, v):
            kw = {n.replace('-', '_'): v}
            if cls is HTTPError:
                return HTTPError(500, 'b', **kw), n.replace('-', '_')
            return cls('b', 200, **kw), n.replace('-', '_')
    elif entry == 'httperror_options':
        cname = 'HTTPError'

        def f(n, v):
            return HTTPError(405, 'no', Allow=v), 'Allow'
    else:
        def f(n, v):
            r = new()
            for k in range(pre):
                r.headers.append(n, 'v%d' % k)
            r.headers.append(n, v)
            return r.copy(cls if cls is not Response else None), n
    if entry in ('ctor_dict', 'ctor_pairs', 'ctor_iterable', 'more_headers') and cls in (BaseResponse, Response):
        cls = rng.choice([HTTPResponse, HTTPError])
        cname = cls.__name__
    f.pre = pre
    f.box = box
    return entry, cname, f


def emitted_for(hl, name):
    return [v for k, v in hl if k == name]


def check_emitted_list(ctx, hl, where, wit):
    ok = True
    for k, v in hl:
        if type(v) is not str or type(k) is not str:
            ctx.violation(f'emitted-non-str-value', f'{where}: {k!r}: {v!r}', wit)
            ok = False
            continue
        if has_ctl(v):
            ctx.violation(f'control-character-emitted', f'{where}: {k!r}: {v!r}', wit)
            ok = False
        try:
            v.encode('latin1')
        except UnicodeError:
            ctx.violation('emitted-value-not-latin1', f'{where}: {k!r}: {v!r}', wit)
            ok = False
    return ok


def setter_unit(ctx, unit):
    import ombott
    rng = ctx.rng
    for i in range(unit['n']):
        entry, cname, f = make_entry(rng, ombott)
        v = gen_value(rng)
        n = rng.choice(NAMES)
        if entry == 'attr' and 'expires' in repr(f.__defaults__) and type(v) is not str:
            # the expires writer formats non-strings as dates: what reaches the guard is the writer's output, not v
            continue
        ctx.count('entry_' + entry)
        try:
            sv = str(v)
        except Exception:
            sv = None
        allowed_type = v is None or isinstance(v, (str, int, float, bool))
        if not isinstance(v, str):
            ctx.count('non_str_types')
        bad = sv is not None and has_ctl(sv)
        nontriv = bad or not isinstance(v, str) or any(ord(c) > 127 for c in v)
        ctx.case((entry, cname, repr(v), n), nontrivial=nontriv)
        wit = {'unit': {'kind': 'note', 'entry': entry, 'class': cname, 'name': n, 'value': repr(v)}}
        where = f'{cname} via {entry} {n!r}={v!r}'
        if i % 997 == 0:
            ctx.sample({'entry_point': entry, 'class': cname, 'name': n, 'value': repr(v)})
        try:
            resp, real_name = f(n, v)
            accepted = True
        except Exception as e:  # noqa
            accepted = False
            exc = e
        if not accepted:
            if bad:
                ctx.count('ctl_rejected')
                if entry in ('append', 'ctor_pairs') and f.pre >= 2:
                    ctx.count('third_or_later_value_of_a_header')
            elif allowed_type and not (entry == 'attr'):
                ctx.count('clean_value_rejected(not a verdict)')
            # a refused value must not stay behind: an application that catches the error still sends this response
            r0 = f.box.get('r')
            if r0 is not None:
                ctx.count('response_inspected_after_a_rejection')
                try:
                    hl0 = r0.headerlist
                except Exception as e:  # noqa
                    ctx.violation(f'headerlist-raises-after-a-rejected-value:{entry}', f'{where}: setter raised {exc!r}, then headerlist raises {e!r}', wit)
                    continue
                check_emitted_list(ctx, hl0, where + ' (after the setter refused the value)', wit)
                left = emitted_for(hl0, f.box['name'])
                r1 = f.box['new']()          # the same response without the refused call
                for kv in f.box['kept'] or []:
                    r1.headers.append(f.box['name'], kv)
                kept = emitted_for(r1.headerlist, f.box['name'])
                if left != kept:
                    ctx.violation(f'rejected-value-stays-in-the-response:{entry}', f'{where}: setter raised {type(exc).__name__}, yet the header list has {left!r} (expected {kept!r})', wit)
            continue
        try:
            hl = resp.headerlist
        except Exception as e:  # noqa
            if isinstance(v, str) and not bad:
                ctx.violation(f'headerlist-raises-{type(e).__name__}', f'{where}: {e!r}', wit)
            else:
                ctx.count('headerlist_raised_for_non_text')
            continue
        check_emitted_list(ctx, hl, where, wit)
        if bad:
            ctx.violation(f'control-character-accepted:{entry}', f'{where}: accepted; emitted {emitted_for(hl, real_name)!r}', wit)
            continue
        if not allowed_type:
            ctx.count('other_type_accepted')
            continue
        if entry == 'attr' and real_name == 'Expires' and not isinstance(v, str):
            continue    # formatted as a date
        em = emitted_for(hl, real_name)
        exp = [sv]
        if entry in ('append', 'ctor_pairs', 'ctor_iterable', 'copy'):
            exp = ['v%d' % k for k in range(f.pre)] + [sv]
            ctx.count('multi_value_order_checked')
            if f.pre >= 2:
                ctx.count('third_or_later_value_of_a_header')
        if real_name == 'Content-Type' and resp.status_code in (204, 304):
            exp = []
        try:
            back = [e.encode('latin1').decode('utf8') for e in em]
        except UnicodeError:
            ctx.violation('emitted-value-does-not-decode-back-as-utf8', f'{where}: emitted {em!r}', wit)
            continue
        if back != exp:
            ctx.violation(f'emitted-value-differs:{entry}', f'{where}: expected {exp!r}, emitted {em!r} (decoded {back!r})', wit)
            continue
        ctx.count('clean_accepted_and_roundtripped')
        if any(ord(c) > 127 for c in sv):
            ctx.count('non_ascii_roundtripped')


def multi_unit(ctx, unit):
    """Multi-valued headers: once per value, in order, interleaved with other names."""
    from ombott.response import BaseResponse, Response, HTTPResponse
    rng = ctx.rng
    for i in range(unit['n']):
        cls = rng.choice([Response, HTTPResponse])
        r = cls()
        model = {}
        ops = []
        for _ in range(rng.randint(2, 9)):
            n = rng.choice(NAMES[:4])
            v = rng.choice(TEXTS) + str(rng.randint(0, 99))
            op = rng.choice(['append', 'append', 'append', 'set'])
            ops.append((op, n, v))
            if op == 'append':
                r.headers.append(n, v)
                model.setdefault(n, []).append(v)
            else:
                r.headers[n] = v
                model[n] = [v]
        hl = r.headerlist
        ctx.case(('multi', tuple(ops)), nontrivial=any(len(v) > 1 for v in model.values()))
        ctx.count('multi_value_order_checked')
        wit = {'unit': {'kind': 'note', 'ops': ops}}
        check_emitted_list(ctx, hl, 'multi', wit)
        for n, vs in model.items():
            em = [e.encode('latin1').decode('utf8') for e in emitted_for(hl, n)]
            if em != vs:
                ctx.violation('multi-valued-header-reordered-or-merged', f'{cls.__name__} ops={ops}: {n} expected {vs!r} emitted {em!r}', wit)
        if i % 500 == 0:
            ctx.sample({'ops': ops, 'headerlist': hl})


ENTITY = ['Allow', 'Content-Encoding', 'Content-Language', 'Content-Length', 'Content-Range', 'Content-Type', 'Content-Md5', 'Last-Modified']


def status_unit(ctx, unit):
    """Blacklist per status, on the object and on the wire."""
    import ombott
    from ombott.response import Response, HTTPResponse
    app = ombott.Ombott()
    cur = {}

    @app.route('/s')
    def h():
        mode = cur['mode']
        if mode in ('response', 'response_then_refused_status'):
            app.response.status = cur['status']
            if mode == 'response_then_refused_status':
                # the application tries a status the framework refuses, catches the error and keeps its answer
                for bad in (1000, 0, '99 Bottles', -204):
                    try:
                        app.response.status = bad
                        raise AssertionError('harness: status %r was accepted' % (bad,))
                    except ValueError:
                        pass
            for k in ENTITY + ['X-Other']:
                app.response.headers[k] = cur['vals'][k]
            return cur.get('body', '')
        if mode == 'raised_after_peek':
            # the application looked at its response first (a log line with repr(response), a debugging header dump) while the status was still 200
            repr(app.response)
            list(app.response.headerlist)
        raise HTTPResponse(cur.get('body', ''), cur['status'], dict(cur['vals']))

    codes = sorted(c for c in http.client.responses if 100 <= c <= 599)
    for code in codes:
        vals = {k: f'v-{k}' for k in ENTITY + ['X-Other']}
        vals['Content-Length'] = '0'
        forbidden = {204: {'Content-Type'}, 304: set(ENTITY)}.get(code, set())
        for cls in (Response, HTTPResponse):
            r = cls()
            r.status = code
            for k, v in vals.items():
                r.headers[k] = v
            names = [k for k, _ in r.headerlist]
            ctx.case(('status', code, cls.__name__), nontrivial=True)
            ctx.count('statuses_checked')
            wit = {'unit': {'kind': 'note', 'status': code}}
            leaked = [k for k in names if k in forbidden]
            if leaked:
                ctx.violation(f'forbidden-entity-header-emitted-on-{code}', f'{cls.__name__}({code}): {leaked}', wit)
            missing = [k for k in vals if k not in forbidden and k not in names]
            if missing:
                ctx.violation('header-withheld-although-not-blacklisted', f'{cls.__name__}({code}): {missing}', wit)
            if code == 204:
                ctx.count('blacklist_204')
            if code == 304:
                ctx.count('blacklist_304')
            # the same with two values per header (append): withheld means every value
            r2 = cls()
            r2.status = code
            for k, v in vals.items():
                r2.headers.append(k, v)
                r2.headers.append(k, v + '-2')
            names2 = [k for k, _ in r2.headerlist]
            ctx.count('multi_valued_blacklist_checked')
            leaked2 = sorted({k for k in names2 if k in forbidden})
            if leaked2:
                ctx.violation(f'forbidden-entity-header-emitted-on-{code}:multi-valued', f'{cls.__name__}({code}) with two values per header: {leaked2}', wit)
            short = [k for k in vals if k not in forbidden and names2.count(k) != 2]
            if short:
                ctx.violation('multi-valued-header-reordered-or-merged', f'{cls.__name__}({code}): {short} not emitted once per value', wit)
        for mode in ('response', 'raised', 'raised_after_peek', 'response_then_refused_status'):
            cur.update(mode=mode, status=code, vals=vals)
            r = call_app(app, make_environ('GET', '/s'))
            ctx.count('wsgi_emissions')
            ctx.case(('wsgi-status', code, mode), nontrivial=True)
            wit = {'unit': {'kind': 'note', 'status': code, 'mode': mode}}
            if r.problems or r.escaped is not None or r.code != code:
                ctx.violation('wsgi-emission-broken', f'status {code} {mode}: got {r.status} problems={r.problems} escaped={r.escaped!r}', wit)
                continue
            names = [k for k, _ in r.headers]
            leaked = [k for k in names if k in forbidden]
            if leaked:
                ctx.violation(f'forbidden-entity-header-emitted-on-{code}', f'wsgi {mode} {code}: {leaked}', wit)
            if code not in (204, 304) and 'Content-Type' not in names:
                ctx.violation('default-content-type-missing', f'wsgi {mode} {code}', wit)
            low = [k for k in names if k.lower() in {f.lower() for f in forbidden} and k not in forbidden]
            if low:
                ctx.count('other_spelling_survives_blacklist(observation)')
    ctx.sample({'statuses': len(codes), 'forbidden_on_304': ENTITY})


def wsgi_unit(ctx, unit):
    """Setter calls made inside handlers; the monitor reads the list given to start_response."""
    import ombott
    from ombott.response import HTTPResponse, HTTPError
    rng = ctx.rng
    app = ombott.Ombott()
    cur = {}
    log = {}

    @app.route('/h')
    def h():
        v, n, how = cur['v'], cur['n'], cur['how']
        log['accepted'] = False
        if how == 'setitem':
            app.response.headers[n] = v
        elif how == 'append':
            for k in range(cur['pre']):
                app.response.headers.append(n, 'v%d' % k)
            app.response.headers.append(n, v)
        elif how == 'attr':
            app.response.content_type = v
        elif how == 'raise':
            log['accepted'] = True
            raise HTTPResponse('raised', 200, {n: v})
        elif how == 'raise_err':
            log['accepted'] = True
            raise HTTPError(403, 'denied', **{n.replace('-', '_'): v})
        elif how == 'return':
            log['accepted'] = True
            return HTTPResponse('returned', 200, [(n, 'v%d' % k) for k in range(cur['pre'])] + [(n, v)])
        log['accepted'] = True
        return 'body'

    for i in range(unit['n']):
        v = gen_value(rng)
        if type(v) is not str:
            v = rng.choice(TEXTS) + rng.choice(CTL + ['']) + rng.choice(TEXTS)
        n = rng.choice(NAMES)
        how = rng.choice(['setitem', 'append', 'attr', 'raise', 'raise_err', 'return'])
        pre = rng.randint(0, 4)
        cur.update(v=v, n=n, how=how, pre=pre)
        r = call_app(app, make_environ('GET', '/h'))
        ctx.count('wsgi_emissions')
        bad = has_ctl(v)
        ctx.case(('wsgi', how, n, v), nontrivial=bad or any(ord(c) > 127 for c in v))
        wit = {'unit': {'kind': 'note', 'how': how, 'name': n, 'value': v}}
        where = f'handler {how} {n!r}={v!r}'
        if r.escaped is not None or r.sr_calls != 1 or r.headers is None:
            ctx.violation('wsgi-emission-broken', f'{where}: escaped={r.escaped!r} start_response calls={r.sr_calls}', wit)
            continue
        check_emitted_list(ctx, r.headers, where, wit)
        if bad:
            if r.code < 500 and any(v in (x.encode('latin1').decode('utf8', 'replace')) for _, x in r.headers):
                ctx.violation(f'control-character-accepted:wsgi-{how}', f'{where}: status {r.status}', wit)
            else:
                ctx.count('ctl_rejected')
            continue
        if r.code >= 500:
            ctx.violation('clean-header-value-caused-server-error', f'{where}: {r.status} {r.errors[-200:]}', wit)
            continue
        real = {'attr': 'Content-Type', 'raise_err': n.replace('-', '_')}.get(how, n)
        em = [x.encode('latin1').decode('utf8') for x in emitted_for(r.headers, real)]
        exp = (['v%d' % k for k in range(pre)] + [v]) if how in ('append', 'return') else [v]
        if em != exp:
            ctx.violation(f'emitted-value-differs:wsgi-{how}', f'{where}: expected {exp!r}, start_response got {em!r}', wit)
        else:
            ctx.count('clean_accepted_and_roundtripped')
            if any(ord(c) > 127 for c in v):
                ctx.count('non_ascii_roundtripped')
        if i % 700 == 0:
            ctx.sample({'in_handler': how, 'name': n, 'value': v, 'status': r.status, 'wire': emitted_for(r.headers, real)})


def ops_unit(ctx, unit):
    """Random sequences of header operations on one response beside a plain model (dict name -> list of values, insertion order):
    what is emitted is what the model holds, one line per value in order, whatever mix of setters, deletions and copies produced it.
    Hostile values are offered in between; each must be refused and leave no trace."""
    from ombott.response import Response, HTTPResponse
    rng = ctx.rng
    names = ['X-A', 'X-B', 'Vary', 'Link', 'X-C', 'Content-Type']
    for si in range(unit['n']):
        r = HTTPResponse('b') if si % 2 else Response()
        # what a new response starts with (a default content type) is part of the model
        model = {k: ([str(x) for x in v] if isinstance(v, list) else [str(v)]) for k, v in r.headers.items()}
        hist = []
        for step in range(rng.randint(3, 16)):
            n = rng.choice(names)
            v = rng.choice(TEXTS) if rng.random() < 0.7 else rng.choice([7, 2.5, True, None])
            sv = str(v)
            op = rng.choice(['set', 'append', 'append', 'setdefault', 'del', 'clear_name', 'pop', 'hostile', 'copy', 'reads', 'clear_all', 'update_clean', 'headers_copy', 'attr_set', 'attr_del', 'getitem'])
            hist.append((op, n, repr(v)))
            try:
                if op == 'set':
                    r.headers[n] = v
                    model[n] = [sv]
                elif op == 'append':
                    r.headers.append(n, v)
                    model.setdefault(n, []).append(sv)
                elif op == 'setdefault':
                    r.headers.setdefault(n, v)
                    model.setdefault(n, [sv])
                elif op == 'attr_set':
                    r.content_type = v
                    model['Content-Type'] = [sv]
                    ctx.count('header_attribute_set_or_deleted')
                elif op == 'attr_del':
                    if 'Content-Type' in model:
                        del r.content_type
                        del model['Content-Type']
                        ctx.count('header_attribute_set_or_deleted')
                    if r.content_type != '':
                        ctx.violation('header-reads-differ-from-model', f'history {hist}: content_type after deletion {r.content_type!r}', {'unit': {'kind': 'note', 'history': hist}})
                        break
                elif op == 'getitem':
                    if n in model:
                        got = r.headers[n]
                        want_get = model[n][0] if len(model[n]) == 1 else model[n]
                        if got != want_get:
                            ctx.violation('header-reads-differ-from-model', f'history {hist}: headers[{n!r}] = {got!r}, model {want_get!r}', {'unit': {'kind': 'note', 'history': hist}})
                            break
                elif op == 'del':
                    if n in model:
                        del r.headers[n]
                        del model[n]
                elif op == 'clear_name':
                    r.headers.clear(n)
                    model.pop(n, None)
                elif op == 'clear_all':
                    if rng.random() < 0.3:
                        r.headers.clear()
                        model.clear()
                elif op == 'pop':
                    r.headers.pop(n, None)
                    model.pop(n, None)
                elif op == 'update_clean':
                    r.headers.update({n: sv})
                    model[n] = [sv]
                elif op == 'hostile':
                    bad = sv + rng.choice(CTL) + 'Set-Cookie: x=1'
                    how = rng.choice(['set', 'append', 'setdefault'])
                    try:
                        if how == 'set':
                            r.headers[n] = bad
                        elif how == 'append':
                            r.headers.append(n, bad)
                        else:
                            r.headers.setdefault(n, bad)
                        if not (how == 'setdefault' and n in model):
                            ctx.violation(f'control-character-accepted:{how}', f'history {hist}', {'unit': {'kind': 'note', 'history': hist}})
                            break
                    except ValueError:
                        ctx.count('ctl_rejected')
                elif op == 'headers_copy':
                    hd = r.headers.copy()
                    before = {k: (list(x) if isinstance(x, list) else x) for k, x in hd.items()}
                    want_items = {k: (vs[0] if len(vs) == 1 else list(vs)) for k, vs in model.items()}
                    if before != want_items:
                        ctx.violation('headers.copy()-differs-from-model', f'history {hist}: copy {before}, model {want_items}', {'unit': {'kind': 'note', 'history': hist}})
                        break
                    hd.append(n, 'only-in-the-copy')     # the copy is independent: the response must not change (checked below)
                    hd['X-New'] = 'only-in-the-copy'
                elif op == 'copy':
                    r2 = r.copy(HTTPResponse)
                    r2.headers.append(n, 'only-in-the-copy')
                    if n in model and len(model[n]) > 1 and rng.random() < 0.5:
                        r = r2      # go on with the copy: it is a response like any other
                        model.setdefault(n, []).append('only-in-the-copy')
                else:
                    ctx.count('header_reads_compared')
                    got = (n in r.headers, len(r.headers), list(r.headers), r.headers.get(n))
                    want_get = None if n not in model else (model[n][0] if len(model[n]) == 1 else model[n])
                    if got != (n in model, len(model), list(model), want_get):
                        ctx.violation('header-reads-differ-from-model', f'history {hist}: in/len/iter/get = {got}, model {model}', {'unit': {'kind': 'note', 'history': hist}})
                        break
            except Exception as e:  # noqa
                ctx.violation(f'header-operation-raises-{type(e).__name__}', f'history {hist}: {e!r}', {'unit': {'kind': 'note', 'history': hist}})
                break
            hl = r.headerlist
            em = [(k, val.encode('latin1').decode('utf8')) for k, val in hl if k in names or k == 'X-New']
            want = [(k, x) for k, vs in model.items() for x in vs]
            if 'Content-Type' not in model:
                want.append(('Content-Type', r.default_content_type))      # a response without a content type of its own is sent with the default one
            ctx.count('header_lists_compared_with_model')
            ctx.case(('ops', si, step), nontrivial=True)
            if em != want:
                ctx.violation('emitted-headers-differ-from-model', f'history {hist}: emitted {em}, model {want}', {'unit': {'kind': 'note', 'history': hist}})
                break
            if any(has_ctl(val) for _, val in hl):
                ctx.violation('control-character-emitted', f'history {hist}', {'unit': {'kind': 'note', 'history': hist}})
                break
        if si % 400 == 0:
            ctx.sample({'operation_history': hist[:8], 'model': {k: v[:3] for k, v in model.items()}})


def surrogate_unit(ctx, unit):
    """Values that cannot be encoded as UTF-8 at all (lone surrogates, e.g. what os.fsdecode() makes of a Latin-1 file name): refusing them -
    at the setter or when the header list is built - is fine; a header list that does come out must be wire-safe and keep to the status blacklist."""
    from ombott.response import Response, HTTPResponse
    import ombott
    vals = ['\udce9', 'caf\udce9.txt', 'a\ud800b', '\udcff' * 3, 'attachment; filename="r\udce9sum\udce9.pdf"']
    app = ombott.Ombott()
    cur = {}

    @app.route('/u')
    def h():
        app.response.status = cur['status']
        app.response.headers['Content-Length'] = '0'
        app.response.headers['Last-Modified'] = 'Thu, 01 Jan 2015 00:00:00 GMT'
        app.response.headers['Content-Disposition'] = cur['v']
        return ''
    for v in vals:
        for status in (200, 201, 204, 304, 404):
            for entry in ('setitem', 'append', 'ctor', 'wsgi'):
                ctx.case(('surrogate', v, status, entry), nontrivial=True)
                ctx.count('values_that_cannot_be_utf8_encoded')
                wit = {'unit': {'kind': 'note', 'value': repr(v), 'status': status, 'entry': entry}}
                where = f'unencodable value {v!r} through {entry} on a {status} response'
                forbidden = {204: {'Content-Type'}, 304: set(ENTITY)}.get(status, set())
                if entry == 'wsgi':
                    cur.update(v=v, status=status)
                    r = call_app(app, make_environ('GET', '/u'))
                    if r.escaped is not None or r.sr_calls != 1:
                        ctx.violation('wsgi-emission-broken', f'{where}: {r.escaped!r}', wit)
                        continue
                    hl = r.headers
                    if r.code >= 500:
                        ctx.count('unencodable_value_refused')
                        forbidden = set()
                else:
                    try:
                        if entry == 'ctor':
                            resp = HTTPResponse('', status, {'Content-Disposition': v, 'Content-Length': '0', 'Last-Modified': 'x'})
                        else:
                            resp = Response()
                            resp.status = status
                            resp.headers['Content-Length'] = '0'
                            resp.headers['Last-Modified'] = 'x'
                            if entry == 'setitem':
                                resp.headers['Content-Disposition'] = v
                            else:
                                resp.headers.append('Content-Disposition', v)
                        hl = resp.headerlist
                    except (UnicodeError, ValueError, TypeError):
                        ctx.count('unencodable_value_refused')
                        continue
                for k, val in hl:
                    try:
                        val.encode('latin1').decode('utf8')
                    except UnicodeError:
                        ctx.violation('emitted-value-does-not-decode-back-as-utf8', f'{where}: {k}: {val!r}', wit)
                        break
                leaked = [k for k, _ in hl if k in forbidden]
                if leaked:
                    ctx.violation(f'forbidden-entity-header-emitted-on-{status}', f'{where}: {leaked}', wit)
    ctx.sample({'unencodable_values': [repr(v) for v in vals]})


def length_unit(ctx, unit):
    """Every value length 1..N (and lengths around powers of two) x control character x position x setter: the guard does not depend on
    how long the value is.  Clean values of the same lengths must be emitted unchanged."""
    from ombott.response import Response, HTTPResponse
    lengths = list(range(1, unit['upto'] + 1)) + [511, 512, 513, 1023, 1024, 1025, 4095, 4096, 4097, 8191, 8192, 8193, 65535, 65536, 65537]
    for L in lengths:
        clean = ('v' * L)
        for ctl in CTL:
            for pos in sorted({0, L // 2, L - 1}):
                v = clean[:pos] + ctl + clean[pos + 1:]
                for entry in ('setitem', 'append', 'setdefault', 'ctor_dict', 'ctor_pairs', 'more_headers', 'attr'):
                    ctx.case(('len', L, ctl, pos, entry), nontrivial=True)
                    ctx.count('length_sweep_cases')
                    wit = {'unit': {'kind': 'note', 'entry': entry, 'length': L, 'control_character': repr(ctl), 'position': pos}}
                    r = Response()
                    try:
                        if entry == 'setitem':
                            r.headers['X-L'] = v
                        elif entry == 'append':
                            r.headers.append('X-L', v)
                        elif entry == 'setdefault':
                            r.headers.setdefault('X-L', v)
                        elif entry == 'ctor_dict':
                            r = HTTPResponse('b', 200, {'X-L': v})
                        elif entry == 'ctor_pairs':
                            r = HTTPResponse('b', 200, [('X-L', 'ok'), ('X-L', v)])
                        elif entry == 'more_headers':
                            r = HTTPResponse('b', 200, X_L=v)
                        else:
                            r.content_type = v
                    except (ValueError, TypeError):
                        ctx.count('ctl_rejected')
                        hl = r.headerlist
                    else:
                        hl = r.headerlist
                        ctx.violation(f'control-character-accepted:{entry}', f'value of length {L} with {ctl!r} at {pos} accepted through {entry}', wit)
                    if any(has_ctl(val) for _, val in hl):
                        ctx.violation('control-character-emitted', f'value of length {L} with {ctl!r} at {pos} through {entry}: in the header list', wit)
        r = Response()
        r.headers['X-L'] = clean
        if ('X-L', clean) not in r.headerlist:
            ctx.violation('emitted-value-differs:setitem', f'clean value of length {L} not emitted unchanged', {'unit': {'kind': 'note', 'length': L}})
    ctx.sample({'lengths': f'1..{unit["upto"]} and around 512, 1024, 4096, 8192, 65536', 'positions': 'first, middle, last', 'setters': 7})


LINEBREAK_LOOKALIKES = ['\x0b', '\x0c', '\x1c', '\x1d', '\x1e', '\x85', '\u2028', '\u2029', 'Å', 'ą', 'х', '元', '公', '全']     # what str.splitlines() or a byte 0x85 would cut at


def crowded_unit(ctx, unit):
    """Responses with many header lines (1 .. a few hundred: Link, Vary, Set-Thing, a name per line), the values legal but full
    of text that naive line handling trips over - vertical tab, form feed, the C1 'next line', separators U+2028/9, letters
    whose UTF-8 contains byte 0x85, empty values at the end.  Emitted: every value, once, in order, under its own name."""
    from ombott.response import Response, HTTPResponse
    rng = ctx.rng
    for N in unit['counts']:
        for rep in range(unit.get('reps', 3)):
            r = HTTPResponse('b') if (N + rep) % 2 else Response()
            want = {}
            for i in range(N):
                shape = rng.randrange(5)
                base = rng.choice(TEXTS)
                if shape == 0:
                    v = base + rng.choice(LINEBREAK_LOOKALIKES) + 'tail%d' % i
                elif shape == 1:
                    v = rng.choice(LINEBREAK_LOOKALIKES) + base
                elif shape == 2:
                    v = '' if i % 2 else base + rng.choice(LINEBREAK_LOOKALIKES)
                else:
                    v = base + str(i)
                n = rng.choice(['Link', 'Vary', 'Set-Thing', 'X-H%d' % i, 'X-H%d' % i])
                if n in want and rng.random() < 0.15:
                    r.headers[n] = v
                    want[n] = [v]
                else:
                    r.headers.append(n, v)
                    want.setdefault(n, []).append(v)
            ctx.case(('crowded', N, rep), nontrivial=True)
            ctx.count('responses_with_many_header_lines')
            ctx.note_max('most_header_lines_on_one_response', N)
            wit = {'unit': {'kind': 'note', 'header_lines': N, 'values (first 6)': [repr(x) for vs in list(want.values())[:6] for x in vs[:2]]}}
            try:
                hl = r.headerlist
            except Exception as e:  # noqa
                ctx.violation(f'headerlist-raises-{type(e).__name__}', f'{N} header lines: {e!r}', wit)
                continue
            check_emitted_list(ctx, hl, f'{N} header lines', wit)
            try:
                em = {}
                for k, val in hl:
                    if k in want:
                        em.setdefault(k, []).append(val.encode('latin1').decode('utf8'))
            except UnicodeError as e:
                ctx.violation('emitted-value-does-not-decode-back', f'{N} header lines: {e!r}', wit)
                continue
            if em != want or [k for k, _ in hl if k in want and k.startswith('X-H')] != [k for k in want if k.startswith('X-H') for _ in want[k]]:
                diff = [(k, want[k], em.get(k)) for k in want if em.get(k) != want[k]][:2]
                ctx.violation('emitted-headers-differ-from-model', f'{N} header lines: first differences (name, stored, emitted) {diff!r}', wit)
    ctx.sample({'header_line_counts': unit['counts'][:20]})


def plan(tier, seed):
    if tier == 'quick':
        return ([{'kind': 'setter', 'n': 4000, 'sub': i} for i in range(4)] + [{'kind': 'multi', 'n': 1500}, {'kind': 'status'},
                {'kind': 'wsgi', 'n': 3000}, {'kind': 'length', 'upto': 300}, {'kind': 'ops', 'n': 1500}, {'kind': 'surrogate'},
                {'kind': 'crowded', 'counts': list(range(1, 70)) + [100, 128, 129, 257, 600]}])
    return ([{'kind': 'setter', 'n': 50000, 'sub': i} for i in range(16)] + [{'kind': 'multi', 'n': 20000, 'sub': i} for i in range(4)]
            + [{'kind': 'status'}] + [{'kind': 'wsgi', 'n': 25000, 'sub': i} for i in range(8)] + [{'kind': 'length', 'upto': 2100}] + [{'kind': 'ops', 'n': 20000, 'sub': i} for i in range(4)] + [{'kind': 'surrogate'}]
            + [{'kind': 'crowded', 'counts': list(range(1 + j, 400, 4)) + [1000 + j, 4096 + j], 'reps': 6, 'sub': j} for j in range(4)])


def run_unit(ctx, unit):
    k = unit['kind']
    if k == 'setter':
        setter_unit(ctx, unit)
    elif k == 'multi':
        multi_unit(ctx, unit)
    elif k == 'status':
        status_unit(ctx, unit)
    elif k == 'wsgi':
        wsgi_unit(ctx, unit)
    elif k == 'length':
        length_unit(ctx, unit)
    elif k == 'ops':
        ops_unit(ctx, unit)
    elif k == 'surrogate':
        surrogate_unit(ctx, unit)
    elif k == 'crowded':
        crowded_unit(ctx, unit)
    elif k == 'note':
        print('  witness (re-run the tier to re-evaluate):', unit)
