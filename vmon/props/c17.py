"""C17 - Range and conditional requests describe exactly the bytes delivered.

Real files on disk, served by static_file through the default application
(static_file reads the module-level request).  Oracle = reference RFC 7233 first-range
function for grammar-conforming headers; three-way self-consistency (Content-Range,
Content-Length, delivered bytes vs. the file) for every 206 whatever the header;
304 iff the conditional date parses and is not older than the file; HEAD = GET's
status and headers with no body; no 206 chunk above the streaming buffer.
"""
import os
import re
import shutil
import tempfile
import email.utils
from vmon.wsgi import make_environ, call_app

RULE = ('files of every length 0..N (and lengths around the 1 MiB streaming buffer) x Range headers: all first-last / first- / -suffix with '
        'bounds in -1..len+2 (complete), lists of 2-3 ranges, reversed, out-of-bounds, huge numbers, and near misses of the grammar '
        '(blanks, signs, underscores, Unicode digits, other units, extra dashes, empty) x If-Modified-Since before/equal/after the '
        'mtime in the three HTTP date formats, garbage and "; length=" suffixes x GET and HEAD, served through Ombott.__call__. '
        'Non-trivial = a Range or If-Modified-Since header is present; distinct = distinct (length, method, Range, IMS class).')
PYOPT = {'quick': 1, 'thorough': 1}     # one unit of every kind is also served by an interpreter started with -O (assert statements compiled out)
REQUIRED = ['units_run_under_python_-O', 'files_modified_at_or_before_the_epoch', 'server_zone_not_utc', 'big_file_with_server_file_wrapper', 'mtime_with_subsecond_part', 'ranges_crossing_a_buffer_boundary_before_eof', 'status_206', 'status_416', 'status_200', 'status_304', 'head_compared', 'slice_compared', 'grammar_satisfiable',
            'grammar_unsatisfiable', 'near_miss', 'multi_range', 'suffix_range', 'open_range', 'clipped_end', 'ims_equal', 'ims_before', 'ims_after']
EXHAUSTIVE = {'quick': False, 'thorough': False,
              'quick_note': 'complete for lengths 0..12 x all single ranges with bounds in -1..len+2',
              'thorough_note': 'complete for lengths 0..40 x all single ranges with bounds in -1..len+2'}
ASSUMPTIONS = ['a syntactically valid but reversed range (first > last) may be answered 416 or ignored (whole file): RFC 7233 says ignore, the statement allows 416',
               'for headers outside the RFC 7233 grammar only self-consistency of a 206 (or a 416, or the whole file) is demanded',
               'when the first range is unsatisfiable 416 is accepted although later ranges may be satisfiable (the statement speaks of the first range)']

MTIME = 1_600_000_000
BUF = 1024 * 1024


def ref_first_range(spec, n):
    """spec: ('fl', first, last) | ('f', first) | ('s', suffix).  -> (start, end_exclusive) | None (unsatisfiable) | 'invalid'"""
    k = spec[0]
    if k == 'fl':
        _, a, b = spec
        if a > b:
            return 'invalid'
        if a >= n:
            return None
        return a, min(b, n - 1) + 1
    if k == 'f':
        a = spec[1]
        if a >= n:
            return None
        return a, n
    s = spec[1]
    if s == 0 or n == 0:
        return None
    return max(0, n - s), n


def render_spec(spec):
    if spec[0] == 'fl':
        return f'{spec[1]}-{spec[2]}'
    if spec[0] == 'f':
        return f'{spec[1]}-'
    return f'-{spec[1]}'


NEAR_MISSES = ['bytes=0-' + 'x' * 25, 'bytes=' + 'x' * 22 + '-', 'bytes=-' + '9' * 19 + 'x', 'bytes=0-' + '1' * 30 + 'e5', 'bytes= 1-2', 'bytes=1 -2', 'bytes=1- 2', 'bytes=+1-+3', 'bytes=1_0-2_0', 'bytes=١-٣', 'Bytes=0-1', 'BYTES=0-1',
               'xbytes=0-1', 'items=0-1', 'bytes=', 'bytes=-', 'bytes=--1', 'bytes=1-2-3', 'bytes=a-b', 'bytes=0x1-0x2', 'bytes0-1',
               '0-1', '', 'bytes=0-1bytes=2-3', 'bytes=1.0-2', 'bytes=-1-', 'bytes= -2', 'bytes=0-1;', 'bytes=,0-1', 'bytes=0-,',
               'bytes=-+2', 'bytes=- 2', 'bytes=１-２', 'bytes=0-1\t', 'bytes=\t0-1', 'bytes==0-1', 'none', 'bytes=0--1',
               # Latin-1 characters a server hands over as they come: superscript digits (digits to str.isdigit, not to int), fractions, NBSP
               'bytes=\xb2-5', 'bytes=0-\xb9', 'bytes=-\xb3', 'bytes=\xb9\xb2-', 'bytes=1\xb2-20', 'bytes=\xbd-2', 'bytes=0-\xbc', 'bytes=\xa01-2', 'bytes=1-2\xa0', 'bytes=\xe9-\xe8',
               # positions longer than the interpreter's limit for int() of a string (4300 digits)
               'bytes=' + '1' * 4301 + '-', 'bytes=0-' + '9' * 5000, 'bytes=-' + '7' * 4400, 'bytes=' + '0' * 4400 + '1-', 'bytes=0-' + '0' * 4500 + '5']


def file_content(n):
    if n <= 4096:
        return bytes((i * 7 + 3) % 251 for i in range(n))
    blk = bytes(range(256)) * 4096
    return (blk * (n // len(blk) + 1))[:n]


class Site:
    def __init__(self, fracs=(0, 500_000_000, 1_000, 999_999_000), mtime=None):
        import ombott
        from ombott.static_stream import static_file
        import mimetypes
        mimetypes.init()
        self.base = tempfile.mkdtemp(prefix='vmon-c17-', dir='/dev/shm' if os.path.isdir('/dev/shm') else None)
        self.app = ombott.default_app()
        for r in list(self.app.router.routes.values()):
            self.app.router.remove(r)
        base = self.base
        self.app.route('/f/<name>', ['GET', 'HEAD'], lambda name: static_file(name, root=base))
        # a download route open to every method: anything but HEAD gets the body
        self.app.route('/fany/<name>', 'ANY', lambda name: static_file(name, root=base))
        app = self.app

        def twice(name):
            # a handler that serves, looks at the answer, rewrites (or drops) the Range header through the request object and serves again:
            # the second answer is the one for the header as it is then
            rq = app.request
            first = static_file(name, root=base)
            fb = getattr(first, 'body', None)
            if hasattr(fb, 'close'):
                fb.close()
            second = rq.headers.get('X-Second-Range')
            if second == '-':
                del rq['HTTP_RANGE']
            else:
                rq['HTTP_RANGE'] = second
            return static_file(name, root=base)
        self.app.route('/twice/<name>', ['GET', 'HEAD'], twice)
        self.files = {}
        self.fracs = fracs
        self.mtime = MTIME if mtime is None else mtime

    def file(self, n):
        if n not in self.files:
            p = os.path.join(self.base, f'f{n}.bin')
            data = file_content(n)
            with open(p, 'wb') as f:
                f.write(data)
            # HTTP dates have one-second resolution; file systems do not: give the files sub-second modification times
            frac = self.fracs[len(self.files) % len(self.fracs)]
            os.utime(p, ns=(self.mtime * 10**9 + frac, self.mtime * 10**9 + frac))
            self.files[n] = data
        return f'f{n}.bin', self.files[n]

    def get(self, n, method='GET', rng_header=None, ims=None, file_wrapper=False):
        name, data = self.file(n)
        h = {}
        if rng_header is not None:
            h['Range'] = rng_header
        if ims is not None:
            h['If-Modified-Since'] = ims
        env = make_environ(method, '/f/' + name, headers=h, file_wrapper=file_wrapper)
        return call_app(self.app, env), data

    def close(self):
        shutil.rmtree(self.base, ignore_errors=True)


_CR = re.compile(r'^bytes (\d+)-(\d+)/(\d+)$')


def check_response(ctx, r, data, method, header, expect, wit, what):
    """expect: ('slice', a, b) | ('unsat',) | ('invalid',) | ('any',) | ('full',) | ('304',)"""
    n = len(data)
    where = f'{method} len={n} Range={header!r} [{what}]'
    if r.escaped is not None or r.problems:
        ctx.violation('wsgi-contract-broken', f'{where}: escaped={r.escaped!r} problems={r.problems}', wit)
        return
    code = r.code
    ctx.count(f'status_{code}')
    cl = r.header_all('Content-Length')
    cr = r.header_all('Content-Range')
    body = r.body
    if method == 'HEAD' and body:
        ctx.violation('head-with-body', f'{where}: {len(body)} bytes', wit)
    if expect[0] == '304':
        if code != 304:
            ctx.violation('conditional:not-304-for-date-not-older-than-file', f'{where}: status {r.status}', wit)
        elif body:
            ctx.violation('conditional:304-with-body', where, wit)
        return
    if code == 304:
        ctx.violation('conditional:304-although-date-older-or-unparseable', where, wit)
        return
    if code == 206:
        m = _CR.match(cr[0]) if len(cr) == 1 else None
        if not m or len(cl) != 1 or not cl[0].isdigit():
            ctx.violation('206-headers-malformed', f'{where}: Content-Range={cr} Content-Length={cl}', wit)
            return
        a, b, total = int(m.group(1)), int(m.group(2)), int(m.group(3))
        if not (0 <= a <= b < n) or total != n:
            ctx.violation('206-content-range-not-inside-file', f'{where}: {cr[0]}', wit)
            return
        if int(cl[0]) != b - a + 1:
            ctx.violation('206-content-length-differs-from-content-range', f'{where}: {cr[0]} but Content-Length {cl[0]}', wit)
        if method == 'GET':
            ctx.count('slice_compared')
            if body != data[a:b + 1]:
                ctx.violation('206-bytes-differ-from-content-range', f'{where}: {cr[0]}, delivered {len(body)} bytes', wit)
            big = [len(c) for c in r.chunks if len(c) > BUF]
            if big:
                ctx.violation('206-chunk-larger-than-streaming-buffer', f'{where}: chunk of {big[0]} bytes', wit)
            ctx.note_max('max_206_chunk', max([len(c) for c in r.chunks] or [0]))
        if expect[0] == 'slice':
            if (a, b + 1) != (expect[1], expect[2]):
                ctx.violation('206-slice-is-not-the-first-range-clipped', f'{where}: expected bytes {expect[1]}-{expect[2]-1}, got {cr[0]}', wit)
        elif expect[0] in ('unsat', 'invalid', 'full'):
            ctx.violation('206-for-unsatisfiable-or-absent-range', f'{where}: {cr[0]}', wit)
        return
    if code == 416:
        if expect[0] == 'slice':
            ctx.violation('416-for-satisfiable-first-range', f'{where}: expected bytes {expect[1]}-{expect[2]-1}', wit)
        elif expect[0] == 'full':
            ctx.violation('416-without-range-header', where, wit)
        return
    if code == 200:
        if expect[0] == 'slice':
            ctx.violation('200-for-satisfiable-first-range', f'{where}', wit)
        elif expect[0] == 'unsat':
            ctx.violation('200-for-unsatisfiable-range', where, wit)
        if len(cl) != 1 or cl[0] != str(n):
            ctx.violation('200-content-length-is-not-the-file-length', f'{where}: {cl}', wit)
        if cr:
            ctx.violation('200-with-content-range', f'{where}: {cr}', wit)
        if method == 'GET' and body != data:
            ctx.violation('200-body-is-not-the-whole-file', f'{where}: {len(body)} bytes', wit)
        return
    ctx.violation(f'unexpected-status-{code}', f'{where}: {r.errors[-300:]}', wit)


def headers_equal_modulo_date(a, b):
    fa = sorted((k, v) for k, v in a.headers if k.lower() != 'date')
    fb = sorted((k, v) for k, v in b.headers if k.lower() != 'date')
    return fa == fb


def do_case(ctx, site, n, header, expect, what, both_methods=True, ims=None, sample=False, fw=False):
    wit = {'unit': {'kind': 'one', 'len': n, 'range': header, 'ims': ims, 'what': what, 'fw': fw}}
    r, data = site.get(n, 'GET', header, ims, file_wrapper=fw)
    check_response(ctx, r, data, 'GET', header, expect, wit, what)
    ctx.case((n, 'GET', header, ims), nontrivial=header is not None or ims is not None)
    if sample:
        ctx.sample({'file_len': n, 'Range': header, 'If-Modified-Since': ims, 'status': r.status,
                    'Content-Range': r.header('Content-Range'), 'Content-Length': r.header('Content-Length'), 'body_len': len(r.body)})
    if both_methods and (n + len(header or '')) % 4 == 0:
        # the method spelled in lower case, and a POST to a route open to any method: the same answer as GET
        name, _ = site.file(n)
        hh = {}
        if header is not None:
            hh['Range'] = header
        if ims is not None:
            hh['If-Modified-Since'] = ims
        for meth, path in (('get', '/f/' + name), ('POST', '/fany/' + name), ('GET', '/fany/' + name)):
            r2 = call_app(site.app, make_environ(meth, path, headers=hh))
            ctx.count('methods_other_than_a_literal_GET')
            same_body = r2.body == r.body if r.code in (200, 206) else True      # error pages quote the address, which differs between the routes
            if r2.code != r.code or not same_body or (r.code in (200, 206, 304) and not headers_equal_modulo_date(r2, r)):
                ctx.violation('answer-differs-for-another-spelling-or-method-than-GET', f'len={n} Range={header!r} ims={ims!r}: {meth} {path.split("/")[1]} -> {r2.status} {len(r2.body)} bytes, '
                              f'GET -> {r.status} {len(r.body)} bytes', {'unit': {'kind': 'note', 'len': n, 'range': header, 'method': meth, 'route': path.split('/')[1]}})
                break
    if both_methods:
        rh, _ = site.get(n, 'HEAD', header, ims)
        check_response(ctx, rh, data, 'HEAD', header, expect, wit, what)
        ctx.count('head_compared')
        ctx.case((n, 'HEAD', header, ims), nontrivial=True)
        if rh.code != r.code or not headers_equal_modulo_date(rh, r):
            ctx.violation('head-differs-from-get', f'len={n} Range={header!r} ims={ims!r}: GET {r.status} {sorted(r.headers)} HEAD {rh.status} {sorted(rh.headers)}', wit)
    return r


def expectation(ref):
    if ref == 'invalid':
        return ('invalid',)
    if ref is None:
        return ('unsat',)
    return ('slice', ref[0], ref[1])


def grid_unit(ctx, unit):
    site = Site()
    try:
        for n in unit['lens']:
            do_case(ctx, site, n, None, ('full',), 'no range', sample=(n == unit['lens'][0]))
            bounds = range(0, n + 3)
            specs = [('fl', a, b) for a in bounds for b in bounds] + [('f', a) for a in bounds] + [('s', s) for s in bounds]
            for spec in specs:
                ref = ref_first_range(spec, n)
                header = 'bytes=' + render_spec(spec)
                exp = expectation(ref)
                ctx.count({'slice': 'grammar_satisfiable', 'unsat': 'grammar_unsatisfiable', 'invalid': 'grammar_reversed'}[exp[0]])
                if spec[0] == 's':
                    ctx.count('suffix_range')
                if spec[0] == 'f':
                    ctx.count('open_range')
                if spec[0] == 'fl' and exp[0] == 'slice' and spec[2] >= n:
                    ctx.count('clipped_end')
                do_case(ctx, site, n, header, exp, 'single range', sample=(n == 7 and spec == ('fl', 2, 9)))
    finally:
        site.close()


def misc_unit(ctx, unit):
    rng = ctx.rng
    site = Site()
    try:
        lens = unit['lens']
        for i in range(unit['n']):
            n = rng.choice(lens)
            kind = rng.choice(['multi', 'multi', 'near', 'huge', 'ows', 'rewrite'])
            if kind == 'rewrite':
                def pick():
                    t = rng.choice(['fl', 'f', 's', None])
                    if t is None:
                        return None
                    a, b = rng.randint(0, n + 2), rng.randint(0, n + 2)
                    return ('fl', a, b) if t == 'fl' else (t, a)
                s1, s2 = pick(), pick()
                h1 = 'bytes=' + render_spec(s1) if s1 else None
                h2 = 'bytes=' + render_spec(s2) if s2 else None
                name, data = site.file(n)
                hdrs = {'X-Second-Range': h2 if h2 is not None else '-'}
                if h1 is not None:
                    hdrs['Range'] = h1
                for method in ('GET', 'HEAD'):
                    r = call_app(site.app, make_environ(method, '/twice/' + name, headers=hdrs))
                    wit = {'unit': {'kind': 'note', 'len': n, 'first_range': h1, 'range_set_by_the_handler': h2, 'method': method}}
                    exp = expectation(ref_first_range(s2, n)) if s2 else ('full',)
                    check_response(ctx, r, data, method, h2, exp, wit, f'Range rewritten inside the handler ({h1!r} -> {h2!r})')
                    ctx.case((n, method, h1, h2, 'rewrite'), nontrivial=True)
                ctx.count('range_header_rewritten_through_the_request')
            elif kind == 'multi':
                specs = []
                for _ in range(rng.randint(2, 3)):
                    t = rng.choice(['fl', 'f', 's'])
                    a, b = rng.randint(0, n + 2), rng.randint(0, n + 2)
                    specs.append(('fl', a, b) if t == 'fl' else (t, a))
                sep = rng.choice([',', ', ', ' ,', ',,'])
                header = 'bytes=' + sep.join(render_spec(s) for s in specs)
                ctx.count('multi_range')
                if sep == ',':
                    exp = expectation(ref_first_range(specs[0], n))
                    if exp[0] == 'unsat':
                        exp = ('any',)      # later ranges may be satisfiable: RFC says serve those, the statement allows 416
                else:
                    exp = ('any',)
                do_case(ctx, site, n, header, exp, 'range list', sample=(i % 300 == 0))
            elif kind == 'near':
                header = rng.choice(NEAR_MISSES)
                ctx.count('near_miss')
                do_case(ctx, site, n, header, ('any',) if header else ('full',), 'near miss', sample=(i % 300 == 1))
            elif kind == 'huge':
                big = rng.choice([10**12, 2**63, 2**64 + 1, 10**30])
                t = rng.choice(['last', 'first', 'suffix', 'zeros'])
                if t == 'last':
                    a = rng.randint(0, max(0, n - 1))
                    header, spec = f'bytes={a}-{big}', ('fl', a, big)
                elif t == 'first':
                    header, spec = f'bytes={big}-', ('f', big)
                elif t == 'suffix':
                    header, spec = f'bytes=-{big}', ('s', big)
                elif rng.random() < 0.5:
                    # positions written with many leading zeros (1*DIGIT): 20 to 45 characters long
                    z = '0' * rng.randint(18, 40)
                    a, b = sorted([rng.randint(0, n + 1), rng.randint(0, n + 1)])
                    header, spec = rng.choice([(f'bytes={z}{a}-', ('f', a)), (f'bytes={a}-{z}{b}', ('fl', a, b)), (f'bytes=-{z}{b}', ('s', b)),
                                               (f'bytes={z}{a}-{z}{b}', ('fl', a, b))])
                    ctx.count('positions_of_20_and_more_characters')
                else:
                    a = rng.randint(0, n + 1)
                    header, spec = f'bytes=000{a}-', ('f', a)
                do_case(ctx, site, n, header, expectation(ref_first_range(spec, n)), 'huge/zero-padded numbers')
            else:
                a, b = sorted([rng.randint(0, n + 1), rng.randint(0, n + 1)])
                header = rng.choice(['bytes=%d-%d ', ' bytes=%d-%d', 'bytes=%d-%d,', 'bytes=%d-%d , 0-0']) % (a, b)
                do_case(ctx, site, n, header, ('any',), 'optional whitespace / empty list members')
                ctx.count('near_miss')
    finally:
        site.close()


def http_dates(t):
    import time
    tm = time.gmtime(t)
    east = time.gmtime(t + 2 * 3600)
    return [email.utils.formatdate(t, usegmt=True),
            time.strftime('%A, %d-%b-%y %H:%M:%S GMT', tm),
            time.strftime('%a %b %d %H:%M:%S %Y', tm).replace(' 0', '  '),     # asctime: no zone, UTC by definition
            email.utils.formatdate(t, usegmt=False),                            # ... -0000
            time.strftime('%a, %d %b %Y %H:%M:%S +0000', tm),
            time.strftime('%a, %d %b %Y %H:%M:%S +0200', east)]                 # the same instant written with an offset


ZONES = ['UTC', 'EST5', 'XXX-3', 'CET-1CEST,M3.5.0,M10.5.0/3', 'NST3:30NDT,M3.2.0,M11.1.0']     # POSIX TZ strings: the server's local zone


def cond_unit(ctx, unit):
    import os
    import time
    old = os.environ.get('TZ')
    try:
        for zi, zone in enumerate(unit.get('zones', ZONES)):
            os.environ['TZ'] = zone
            time.tzset()
            ctx.count('server_zone_utc' if zone == 'UTC' else 'server_zone_not_utc')
            for frac in ((0, 500_000_000, 1_000, 999_999_000) if zi == 0 else ((0, 999_999_000)[zi % 2],)):
                ctx.count('mtime_with_subsecond_part' if frac else 'mtime_on_a_whole_second')
                _cond_site(ctx, unit, Site(fracs=(frac,)), zone)
            if zi == 0:
                # files stamped with the epoch or earlier (reproducible builds, image layers): the date 0 is a date like any other
                for mt in (0, -86400, 1, 86400 * 366):
                    ctx.count('files_modified_at_or_before_the_epoch' if mt <= 0 else 'files_modified_shortly_after_the_epoch')
                    _cond_site(ctx, {'lens': unit['lens'][:2]}, Site(fracs=(0,), mtime=mt), zone)
    finally:
        if old is None:
            os.environ.pop('TZ', None)
        else:
            os.environ['TZ'] = old
        time.tzset()


def _cond_site(ctx, unit, site, zone='UTC'):
    try:
        for n in unit['lens']:
            for delta, cname in [(-86400 * 400, 'ims_before'), (-1, 'ims_before'), (0, 'ims_equal'), (1, 'ims_after'), (86400 * 365, 'ims_after')]:
                for fi, d in enumerate(http_dates(site.mtime + delta)):
                    if fi == 1 and site.mtime < 10**9:
                        continue        # two-digit years are ambiguous around 1970
                    for suffix in ['', '; length=%d' % n]:
                        ims = d + suffix
                        exp304 = delta >= 0
                        ctx.count(cname)
                        for header in [None, 'bytes=0-0']:
                            if exp304:
                                exp = ('304',)
                            elif header is None:
                                exp = ('full',)
                            else:
                                exp = expectation(ref_first_range(('fl', 0, 0), n))
                            do_case(ctx, site, n, header, exp, f'IMS {cname} format{fi} TZ={zone}', ims=ims, sample=(n == unit['lens'][0] and fi == 0 and not suffix and header is None))
            for junk in ['yesterday', '0', 'Thu, 99 Foo 2020 00:00:00 GMT', '', ';', 'Mon, 01 Jan 0000 00:00:00 GMT', '\x00', 'Sun, 13 Sep 2020 12:26:40']:
                ctx.count('ims_garbage')
                # an unparseable date is no condition at all; a parseable one without zone is decided by the parser (either way allowed)
                # - asked twice, right after a valid conditional request that was answered 304 (nothing of that answer sticks to the junk)
                site.get(n, 'GET', None, http_dates(site.mtime + 5)[0])
                r0, _ = site.get(n, 'GET', None, junk)
                r, data = site.get(n, 'GET', None, junk)
                if r0.code != r.code:
                    ctx.violation('conditional:answer-to-the-same-request-changes-when-it-is-repeated', f'len={n} IMS={junk!r}: {r0.code} then {r.code}',
                                  {'unit': {'kind': 'note', 'len': n, 'ims': junk, 'history': 'valid IMS (304), junk, junk again'}})
                wit = {'unit': {'kind': 'one', 'len': n, 'range': None, 'ims': junk, 'what': 'garbage IMS'}}
                ctx.case((n, 'GET', None, junk), nontrivial=True)
                if r.code == 304 and junk in ('yesterday', '', ';', '\x00', 'Thu, 99 Foo 2020 00:00:00 GMT'):
                    ctx.violation('conditional:304-although-date-older-or-unparseable', f'len={n} IMS={junk!r}', wit)
                elif r.code not in (200, 304):
                    ctx.violation(f'unexpected-status-{r.code}', f'len={n} IMS={junk!r}: {r.errors[-300:]}', wit)
                elif r.code == 200:
                    check_response(ctx, r, data, 'GET', None, ('full',), wit, 'garbage IMS')
    finally:
        site.close()


def interleaved(ctx, site, n):
    """Two (three) ranged responses over the same file are started before the first is consumed, then consumed chunk by chunk in turn:
    each delivers its own slice."""
    name, data = site.file(n)
    specs = [(0, n - 1), (5, n - 7), (n // 2, n - 1), (BUF - 3, BUF + 40)]
    for combo in ((0, 1), (1, 0), (0, 2), (3, 0), (0, 1, 2)):
        started = []
        for k in combo:
            a, b = specs[k]
            captured = {}

            def sr(status, headers, exc_info=None, captured=captured):
                captured['status'], captured['headers'] = status, headers
            it = site.app(make_environ('GET', '/f/' + name, headers={'Range': f'bytes={a}-{b}'}), sr)
            started.append((a, b, captured, iter(it), it, []))
        live = list(started)
        while live:
            for item in list(live):
                try:
                    item[5].append(next(item[3]))
                except StopIteration:
                    live.remove(item)
                    if hasattr(item[4], 'close'):
                        item[4].close()
        ctx.count('responses_consumed_alternately', len(started))
        ctx.case(('interleaved', n, combo), nontrivial=True)
        for a, b, captured, _, _, chunks in started:
            got = b''.join(chunks)
            if not captured.get('status', '').startswith('206') or got != data[a:b + 1]:
                ctx.violation('206-bytes-differ-from-content-range:responses-consumed-alternately',
                              f'len={n} ranges {[specs[k] for k in combo]}: range {a}-{b} answered {captured.get("status")} with {len(got)} bytes '
                              f'(first difference at {next((i for i, (x, y) in enumerate(zip(got, data[a:b + 1])) if x != y), min(len(got), b + 1 - a))})',
                              {'unit': {'kind': 'note', 'len': n, 'ranges': [list(specs[k]) for k in combo]}})
                break


def big_unit(ctx, unit):
    site = Site()
    rng = ctx.rng
    try:
        for n in unit['lens']:
            if n > BUF + 50:
                interleaved(ctx, site, n)
            if unit.get('only_interleaved'):
                continue
            do_case(ctx, site, n, None, ('full',), 'big file, no range', both_methods=True)
            do_case(ctx, site, n, None, ('full',), 'big file, no range, server file_wrapper', both_methods=False, fw=True)
            ctx.count('big_file_with_server_file_wrapper')
            pts = sorted({0, 1, 7, BUF - 10, BUF - 1, BUF, BUF + 1, BUF + 50, 2 * BUF - 1, 2 * BUF, 2 * BUF + 3, n - 1, n - 2, n // 2} & set(range(n)))
            specs = [('fl', a, b) for a in pts for b in pts if a <= b] + [('f', a) for a in pts] + [('s', s) for s in (1, 60, BUF, BUF + 1, n - 7, n, n + 5)]
            for spec in specs:
                ref = ref_first_range(spec, n)
                if isinstance(ref, tuple) and ref[1] < n and ref[0] // BUF != (ref[1] - 1) // BUF:
                    ctx.count('ranges_crossing_a_buffer_boundary_before_eof')
                do_case(ctx, site, n, 'bytes=' + render_spec(spec), expectation(ref), 'big file', both_methods=False)
                do_case(ctx, site, n, 'bytes=' + render_spec(spec), expectation(ref), 'big file, server file_wrapper', both_methods=False, fw=True)
                ctx.count('big_file_ranges')
                ctx.count('big_file_with_server_file_wrapper')
    finally:
        site.close()


def plan(tier, seed):
    if tier == 'quick':
        units = [{'kind': 'grid', 'lens': [n]} for n in range(0, 13)]
        units += [{'kind': 'misc', 'lens': [0, 1, 2, 5, 12, 100], 'n': 1500}]
        units += [{'kind': 'cond', 'lens': [0, 1, 10]}]
        units += [{'kind': 'big', 'lens': [BUF + 100]}, {'kind': 'big', 'lens': [2 * BUF + 5], 'only_interleaved': True}]
    else:
        units = [{'kind': 'grid', 'lens': [n]} for n in range(0, 41)]
        units += [{'kind': 'misc', 'lens': [0, 1, 2, 3, 5, 12, 40, 100, 5000], 'n': 8000, 'sub': i} for i in range(8)]
        units += [{'kind': 'cond', 'lens': [0, 1, 2, 10, 1000]}]
        units += [{'kind': 'big', 'lens': [m]} for m in (BUF - 1, BUF, BUF + 1, BUF + 100, 2 * BUF + 5, 3 * BUF + 4321)]
    return units


def run_unit(ctx, unit):
    k = unit['kind']
    if k == 'grid':
        grid_unit(ctx, unit)
    elif k == 'misc':
        misc_unit(ctx, unit)
    elif k == 'cond':
        cond_unit(ctx, unit)
    elif k == 'big':
        big_unit(ctx, unit)
    elif k == 'one':
        if ' TZ=' in unit['what']:
            import os
            import time
            os.environ['TZ'] = unit['what'].split(' TZ=', 1)[1]
            time.tzset()
        site = Site()
        try:
            for method in ('GET', 'HEAD'):
                r, data = site.get(unit['len'], method, unit['range'], unit['ims'], file_wrapper=bool(unit.get('fw')) and method == 'GET')
                print(f'  {method} len={unit["len"]} Range={unit["range"]!r} IMS={unit["ims"]!r} -> {r.status} '
                      f'Content-Range={r.header("Content-Range")} Content-Length={r.header("Content-Length")} body={len(r.body)} bytes')
                # re-derive the expectation for grammar-conforming single ranges
                exp = ('any',)
                h = unit['range']
                m = re.match(r'^bytes=(\d*)-(\d*)$', h or '')
                if h is None:
                    exp = ('full',)
                elif m and (m.group(1) or m.group(2)):
                    a, b = m.group(1), m.group(2)
                    spec = ('fl', int(a), int(b)) if a and b else (('f', int(a)) if a else ('s', int(b)))
                    exp = expectation(ref_first_range(spec, unit['len']))
                if unit['ims'] and unit['what'].startswith('IMS') and ('ims_equal' in unit['what'] or 'ims_after' in unit['what']):
                    exp = ('304',)
                check_response(ctx, r, data, method, h, exp, None, 'replay')
        finally:
            site.close()
