"""C05 - chunked transfer decoding is exact and rejects every truncation.

The encoder below is the reference: it knows the payload and the role of every
byte of the encoding.  For every encoding: (a) legal decode under several buffer
sizes / fragmentations must give exactly the payload; (b) every strict prefix
ending before the complete last-chunk line must be rejected as a client error;
(c) every single-byte substitution of a framing byte must give acceptance or a
client error, and a substitution of the CR or LF that follows chunk data must be
rejected.  Observed both at _body_read and through Ombott.__call__ (status class).
"""
import random
from vmon.wsgi import RecStream, make_environ, call_app

RULE = ('seeded encoder: payload 0..400 bytes (some up to 200 kB) rich in CR/LF/hex digits, random partition into chunks, '
        'hex case, leading zeros, chunk extensions, trailers; per encoding: legal decode x buffer sizes x fragmentation '
        'policies, every strict prefix, every single-byte substitution of every framing byte from a 12-symbol alphabet; '
        'long units: 300 one-byte / 210 two-byte chunks (over 1000 reads per body) with late cuts and late broken data terminators, and peers that '
        'fall silent for 2.5..400 s of virtual time (vmon/vclock.py, nothing sleeps) before a cut. '
        'Non-trivial = encodings with >=1 data chunk, prefixes/corruptions always; distinct = distinct (bytes, buffer, policy).')
PYOPT = {'quick': 1, 'thorough': 1}     # one unit of every kind is also served by an interpreter started with -O (assert statements compiled out)
REQUIRED = ['units_run_under_python_-O', 'legal_exact', 'prefix_rejected', 'corruption_rejected', 'corruption_accepted', 'short_read_decodes',
            'wsgi_decodes', 'cut_in_size_line', 'cut_in_data', 'cut_after_data_cr', 'cut_in_last_chunk_line',
            'data_crlf_corruption_rejected', 'chunk_larger_than_buffer', 'with_extension', 'with_trailer',
            'stalled_peer_decodes', 'decodes_with_1000_or_more_reads', 'chunked_bodies_declared_multipart', 'extension_with_bytes_that_are_not_utf8', 'legal_bodies_exactly_at_a_configured_limit', 'request_reframed_as_chunked_after_a_first_read']
ASSUMPTIONS = ['wsgi.input.read(n) may return 1..n bytes while data is available (PEP 3333)',
               'exact decoding is demanded only when every size line (digits+extension+CRLF) fits the configured buffer, '
               'which bounds the size-line scan by design; longer size lines must give exact acceptance or a client error',
               'a prefix that already contains the complete last-chunk line may be accepted']

ALPHABET = [b'0', b'1', b'a', b'F', b'g', b';', b'\r', b'\n', b' ', b'-', b'\x00', b'\xff']


def plan(tier, seed):
    if tier == 'quick':
        return [{'kind': 'enc', 'n': 6, 'sub': i, 'big': 0} for i in range(8)] + [{'kind': 'long', 'n': 12}]
    return [{'kind': 'enc', 'n': 30, 'sub': i, 'big': 2} for i in range(48)] + [{'kind': 'long', 'n': 60, 'sub': i} for i in range(6)]


MP_CTYPE = 'multipart/form-data; boundary=XbX'


def gen_multipart_payload(rng):
    """a well-formed form upload, with or without an epilogue after the closing delimiter"""
    out = b''
    for i in range(rng.randint(1, 3)):
        if rng.random() < 0.5:
            out += b'--XbX\r\nContent-Disposition: form-data; name="t%d"\r\n\r\n' % i + rng.choice([b'v', b'text value', b'', b'a\r\nb']) + b'\r\n'
        else:
            out += (b'--XbX\r\nContent-Disposition: form-data; name="f%d"; filename="f.bin"\r\nContent-Type: application/octet-stream\r\n\r\n' % i
                    + rng.choice([b'DATA', b'\x00\xff', bytes(range(40))]) + b'\r\n')
    out += b'--XbX--' + rng.choice([b'', b'\r\n', b'\r\n', b'\r\nepilogue text that follows the form\r\n'])
    return out


def gen_payload(rng, big=False):
    if big:
        n = rng.choice([70000, 102400, 102401, 200000])
        return rng.randbytes(n)
    n = rng.choice([0, 1, 2, 3, 5, 8, 16, 17, 31, 64, 100, 255, 256, 400])
    alpha = b'\r\n0123456789abcdefABCDEF;- xyz\x00\xff'
    return bytes(rng.choice(alpha) for _ in range(n))


def pre_import():
    from vmon import vclock
    vclock.install()        # a stalled peer advances virtual time; nothing sleeps


def encode(rng, payload, max_chunks=8, partition=None):
    """-> (bytes, roles) ; roles[i] in size/ext/scr/slf/data/dcr/dlf/last/lext/lcr/llf/trailer/fcr/flf"""
    out = bytearray()
    roles = []

    def put(b, role):
        out.extend(b)
        roles.extend([role] * len(b))

    # partition
    n = len(payload)
    cuts = []
    if n:
        k = rng.randint(1, min(max_chunks, n))
        cuts = sorted(rng.sample(range(1, n), k - 1)) if k > 1 else []
    bounds = [0] + cuts + [n] if partition is None else partition
    meta = {'chunks': [], 'ext': False, 'trailer': False, 'max_size_line': 0}
    for a, b in zip(bounds, bounds[1:]):
        if a == b:
            continue
        size = b - a
        hx = '%x' % size
        if rng.random() < 0.4:
            hx = hx.upper()
        if rng.random() < 0.3:
            hx = '0' * rng.randint(1, 3) + hx
        line_start = len(out)
        put(hx.encode(), 'size')
        if rng.random() < 0.3:
            ext = rng.choice([b';a=b', b';x', b';name="q v"', b';a=1;b=2', b';0', b';ff=10', b';file="r\xe9sum\xe9.txt"', b';\xff\xfe=\x80', b';n="\xc3"'])
            if max(ext) > 127:
                meta['ext_high'] = True
            put(ext, 'ext')
            meta['ext'] = True
        put(b'\r', 'scr')
        put(b'\n', 'slf')
        meta['max_size_line'] = max(meta['max_size_line'], len(out) - line_start)
        put(payload[a:b], 'data')
        put(b'\r', 'dcr')
        put(b'\n', 'dlf')
        meta['chunks'].append(size)
    line_start = len(out)
    put(b'0' * rng.choice([1, 1, 1, 2, 4]), 'last')
    if rng.random() < 0.2:
        put(rng.choice([b';done', b';a=b']), 'lext')
        meta['ext'] = True
    put(b'\r', 'lcr')
    put(b'\n', 'llf')
    meta['max_size_line'] = max(meta['max_size_line'], len(out) - line_start)
    meta['last_line_end'] = len(out)
    if rng.random() < 0.3:
        put(rng.choice([b'X-Trailer: 1\r\n', b'A: b\r\nC: d\r\n', b'Expires: Wed, 21 Oct 2015 07:28:00 GMT\r\n', b'X-Finished-At: 12:30\r\nLink: <http://example.com/next?a=1:2>; rel=next\r\n',
                        b'X-Empty:\r\n', b'x-lower: caf\xc3\xa9\r\n']), 'trailer')
        meta['trailer'] = True
    put(b'\r', 'fcr')
    put(b'\n', 'flf')
    return bytes(out), roles, meta


def mk_policy(desc):
    kind, arg = desc[0], desc[1]
    if kind == 'rand':
        return ('rand', random.Random(arg))
    if kind == 'list':
        return ('list', arg)
    return kind


def stalls_of(pdesc):
    """optional third element of a policy description: {read index: virtual seconds of silence before that read}"""
    if len(pdesc) > 2 and pdesc[2]:
        return {int(k): float(v) for k, v in dict(pdesc[2]).items()}
    return None


_steps = {}


def steps():
    """one step counter per worker: a decoder that never returns must become a verdict, not a stuck worker"""
    if 'sc' not in _steps:
        from vmon.probes import StepCounter
        _steps['sc'] = StepCounter().install()
    return _steps['sc']


def budget(enc):
    return 40000 + 400 * len(enc)


def decode_direct(enc, buf, pdesc):
    from ombott.request_pkg import body_mixin
    from ombott.request_pkg.errors import BodyParsingError, RequestError
    from vmon.probes import BudgetExceeded
    st = RecStream(enc, mk_policy(pdesc))
    st.stalls = stalls_of(pdesc)
    if (len(enc) + buf) % 5 == 0:
        st.as_bytearray()
    sc = steps()
    sc.arm(budget(enc))
    try:
        body = body_mixin._body_read(st.read, buf, chunked=True)
    except RequestError as e:
        sc.disarm()
        return ('reject', type(e).__name__, st)
    except BudgetExceeded as e:
        sc.disarm()
        return ('fault', f'step budget exceeded (no progress): {e}', st)
    except Exception as e:   # foreign exception
        sc.disarm()
        return ('fault', f'{type(e).__name__}: {e}', st)
    sc.disarm()
    body.seek(0)
    return ('accept', body.read(), st)


_apps = {}


def decode_wsgi(enc, buf, pdesc, ctype=None, limit=None):
    import ombott
    app = _apps.get((buf, limit))
    if app is None:
        if len(_apps) > 400:
            _apps.clear()
        app = _apps[(buf, limit)] = ombott.Ombott({'max_memfile_size': buf, 'max_body_size': limit})

        @app.route('/c', method='POST')
        def h():
            return app.request.body.read()
    st = RecStream(enc, mk_policy(pdesc))
    st.stalls = stalls_of(pdesc)
    if (len(enc) + buf) % 5 == 1:
        st.as_bytearray()
    # a Content-Length next to the chunked framing (a proxy that adds one, a client that sends both): the framing wins
    extra = {0: {'CONTENT_LENGTH': '0'}, 1: {'CONTENT_LENGTH': '00'}, 2: {'CONTENT_LENGTH': str(len(enc))}, 3: {'CONTENT_LENGTH': '1'}}.get((len(enc) * 7 + buf) % 9)
    if extra:
        from vmon import wsgi as _w
        _w.flavour_counts['chunked_request_carrying_a_content_length_too'] = _w.flavour_counts.get('chunked_request_carrying_a_content_length_too', 0) + 1
    env = make_environ('POST', '/c', stream=st, chunked=True, content_length=None, content_type=ctype, extra=extra)
    sc = steps()
    sc.arm(budget(enc) + 20000)
    r = call_app(app, env)
    sc.disarm()
    if r.escaped is not None:
        return ('fault', f'escaped {type(r.escaped).__name__}: {r.escaped}', st)
    if r.code == 200:
        return ('accept', r.body, st)
    if r.code is not None and 400 <= r.code < 500:
        return ('reject', r.status, st)
    return ('fault', f'status {r.status}; {r.errors[-300:]}', st)


def pick_policy(rng, buf):
    k = rng.choice(['full', 'one', 'rand', 'rand', 'list'])
    if k == 'rand':
        return ('rand', rng.getrandbits(32))
    if k == 'list':
        return ('list', [rng.randint(1, max(1, buf)) for _ in range(rng.randint(1, 10))])
    return (k, None)


def ref_decode(enc):
    """Plain reading of a chunked stream with the documented leniencies only (size token read by Python's
    int(token.strip(), 16), extensions after ';' ignored).  -> ('ok', body) | ('reject', why) | ('unknown',)
    'unknown' = shapes this reading does not model (a bare CR or LF inside a size line, a negative size)."""
    pos = 0
    body = b''
    while True:
        eol = enc.find(b'\r\n', pos)
        if eol < 0:
            return ('reject', 'size line not terminated')
        line = enc[pos:eol]
        if b'\r' in line or b'\n' in line:
            return ('unknown',)
        tok = line.split(b';', 1)[0].strip()
        try:
            size = int(tok, 16)
        except ValueError:
            return ('reject', 'size field %r is not a number' % tok)
        if size < 0:
            return ('unknown',)
        pos = eol + 2
        if size == 0:
            return ('ok', body)
        data = enc[pos:pos + size]
        if len(data) < size:
            return ('reject', 'chunk data cut short')
        if enc[pos + size:pos + size + 2] != b'\r\n':
            return ('reject', 'chunk data not followed by CRLF')
        body += data
        pos += size + 2


def check_one(ctx, enc, buf, pdesc, mode, expect, payload, fits, what, extra='', ctype=None):
    """expect: 'exact' | 'reject' | 'any'"""
    if mode == 'wsgi':
        # every other legal body meets a configured limit that its payload fills exactly: the limit counts payload, not framing
        limit = len(payload) if (expect == 'exact' and payload is not None and len(enc) % 2 and what.startswith('legal')) else None
        if limit is not None:
            ctx.count('legal_bodies_exactly_at_a_configured_limit')
        verdict, val, st = decode_wsgi(enc, buf, pdesc, ctype, limit)
        if ctype:
            ctx.count('chunked_bodies_declared_multipart')
    else:
        verdict, val, st = decode_direct(enc, buf, pdesc)
    short = any(0 < ret < req for req, ret in st.reads)
    if short:
        ctx.count('short_read_decodes')
    if mode == 'wsgi':
        ctx.count('wsgi_decodes')
    wit = {'unit': {'kind': 'one', 'enc': enc.decode('latin1'), 'buf': buf, 'policy': list(pdesc), 'mode': mode,
                    'expect': expect, 'payload': payload.decode('latin1') if payload is not None else None,
                    'fits': fits, 'what': what, 'ctype': ctype}}
    if st.stalls:
        ctx.count('stalled_peer_decodes')
    if len(st.reads) >= 1000:
        ctx.count('decodes_with_1000_or_more_reads')
    desc = f'{what}{extra} mode={mode} buf={buf} policy={pdesc[0]}{" stalls=" + str(st.stalls) if st.stalls else ""} enc={enc[:60]!r}{"..." if len(enc) > 60 else ""}'
    if verdict == 'fault':
        ctx.violation(f'chunked:{what}:server-fault', f'{desc}: {val}', wit)
        return verdict
    if verdict == 'accept':
        # whatever was done to the framing: a body presented as complete must be what the stream, read plainly, says
        ref = ref_decode(enc)
        ctx.count('accepted_bodies_compared_with_plain_reading')
        if ref[0] == 'reject':
            ctx.violation('chunked:accepted-although-the-framing-has-no-plain-reading', f'{desc}: accepted {val[:40]!r} ({len(val)} bytes); plain reading: {ref[1]}', wit)
            return verdict
        if ref[0] == 'ok' and ref[1] != val:
            ctx.violation('chunked:accepted-body-differs-from-plain-reading', f'{desc}: accepted {val[:40]!r} ({len(val)} bytes), plain reading gives {ref[1][:40]!r} ({len(ref[1])} bytes)', wit)
            return verdict
    if expect == 'exact':
        if verdict == 'accept':
            if val != payload:
                ctx.violation('chunked:legal-encoding-decoded-wrong' + ('-under-short-reads' if short else ''),
                              f'{desc}: got {len(val)} bytes {val[:30]!r}, payload {len(payload)} bytes', wit)
            else:
                ctx.count('legal_exact')
        elif fits:
            ctx.violation('chunked:legal-encoding-rejected' + ('-under-short-reads' if short else ''),
                          f'{desc}: {val}', wit)
        else:
            ctx.count('legal_rejected_size_line_exceeds_buffer')
    elif expect == 'reject':
        if verdict == 'accept':
            ctx.violation(f'chunked:{what}:accepted', f'{desc}: accepted as {val[:40]!r} ({len(val)} bytes)', wit)
        else:
            ctx.count('prefix_rejected' if what.startswith('prefix') else 'data_crlf_corruption_rejected')
    else:
        ctx.count('corruption_accepted' if verdict == 'accept' else 'corruption_rejected')
    return verdict


def reframed(ctx, enc, payload, meta):
    """A request object that first carried (and read) a Content-Length body is handed a chunked one through its own item assignment
    (Transfer-Encoding header and input stream replaced): the new body is decoded as what it is - exactly, and a truncated one is refused."""
    import ombott
    from ombott.request_pkg.errors import RequestError
    for cut in (None, max(1, meta['last_line_end'] - 2)):
        data = enc if cut is None else enc[:cut]
        rq = ombott.Request(make_environ('POST', '/c', body=b'abc', content_type='text/plain'), config={'max_memfile_size': 1024})
        first = rq.body.read(), rq.chunked
        rq['HTTP_TRANSFER_ENCODING'] = 'chunked'
        rq['wsgi.input'] = RecStream(data, 'full')
        ctx.count('request_reframed_as_chunked_after_a_first_read')
        ctx.case(('reframed', enc, cut), nontrivial=True)
        wit = {'unit': {'kind': 'note', 'enc': data.decode('latin1'), 'what': 'request reframed as chunked after a Content-Length body was read'}}
        try:
            got = rq.body.read()
        except RequestError:
            got = RequestError
        except ombott.HTTPError as e:
            got = RequestError if 400 <= e.status_code < 500 else e
        except Exception as e:  # noqa
            ctx.violation('chunked:reframed-request:server-fault', f'{type(e).__name__}: {e}', wit)
            continue
        if first[0] != b'abc':
            ctx.violation('chunked:reframed-request:first-body-wrong', repr(first), wit)
        elif cut is None and meta['max_size_line'] <= 1024 and got != payload:
            ctx.violation('chunked:reframed-request:new-body-not-decoded', f'after the request was given a chunked body: {got if got is RequestError else got[:40]!r} instead of {payload[:40]!r}', wit)
        elif cut is not None and got is not RequestError:
            ctx.violation('chunked:reframed-request:truncated-body-accepted', f'cut={cut}: accepted {got[:40]!r}', wit)


def enc_unit(ctx, unit):
    rng = ctx.rng
    for ei in range(unit['n'] + unit['big']):
        big = ei >= unit['n']
        payload = gen_payload(rng, big)
        ctype = None
        if not big and ei % 3 == 2:
            # the same framing rules hold when the body is declared a form upload (the form scanner runs beside the decoder)
            payload, ctype = gen_multipart_payload(rng), MP_CTYPE
        enc, roles, meta = encode(rng, payload, max_chunks=8 if not big else 5)
        if meta['ext']:
            ctx.count('with_extension')
        if meta.get('ext_high'):
            ctx.count('extension_with_bytes_that_are_not_utf8')
        if meta['trailer']:
            ctx.count('with_trailer')
        # (a) legal decodes
        bufs = [1, 2, 3, 4, 5, 7, 8, 16, 64, 1024, 102400]
        if big:
            bufs = [64, 1000, 8192, 102400]
        for buf in bufs:
            fits = meta['max_size_line'] <= buf
            if any(c > buf for c in meta['chunks']):
                ctx.count('chunk_larger_than_buffer')
            for pdesc in ([('full', None), ('one', None), pick_policy(rng, buf)] if not big else [('full', None), pick_policy(rng, buf)]):
                if big and pdesc[0] == 'one':
                    continue
                mode = 'wsgi' if rng.random() < (0.3 if ctype is None else 0.7) else 'direct'
                check_one(ctx, enc, buf, pdesc, mode, 'exact', payload, fits, 'legal', ctype=ctype)
                ctx.case((enc, buf, repr(pdesc), mode), nontrivial=bool(meta['chunks']))
        if not big:
            reframed(ctx, enc, payload, meta)
        if len(ctx.samples) < 4:
            ctx.sample({'encoding': enc[:120].decode('latin1'), 'chunks': meta['chunks'], 'payload_len': len(payload)})
        if big:
            continue
        # (b) every strict prefix
        for cut in range(len(enc)):
            pre = enc[:cut]
            role = roles[cut]   # role of the first missing byte
            buf = rng.choice([16, 64, 1024]) if meta['max_size_line'] <= 16 else 1024
            pdesc = pick_policy(rng, buf)
            mode = 'wsgi' if (cut % 5 == 0 or (ctype and cut % 5 != 1)) else 'direct'
            if cut < meta['last_line_end']:
                check_one(ctx, pre, buf, pdesc, mode, 'reject', payload, True, 'prefix-cut-before-last-chunk', f'[cut={cut} at {role}]', ctype=ctype)
                ctx.count({'size': 'cut_in_size_line', 'ext': 'cut_in_size_line', 'scr': 'cut_in_size_line', 'slf': 'cut_in_size_line',
                           'data': 'cut_in_data', 'dcr': 'cut_before_data_cr', 'dlf': 'cut_after_data_cr',
                           'last': 'cut_in_last_chunk_line', 'lext': 'cut_in_last_chunk_line', 'lcr': 'cut_in_last_chunk_line',
                           'llf': 'cut_in_last_chunk_line'}[role])
            else:
                check_one(ctx, pre, buf, pdesc, mode, 'any', payload, True, 'prefix-after-last-chunk-line', f'[cut={cut}]', ctype=ctype)
            ctx.case((pre, buf, repr(pdesc), mode))
        # (c) single-byte substitutions of framing bytes
        for pos, role in enumerate(roles):
            if role == 'data':
                continue
            for sym in ALPHABET:
                if enc[pos:pos + 1] == sym:
                    continue
                cor = enc[:pos] + sym + enc[pos + 1:]
                buf = rng.choice([16, 64, 1024])
                pdesc = pick_policy(rng, buf)
                mode = 'wsgi' if ((pos + sym[0]) % 7 == 0 or (ctype and (pos + sym[0]) % 2)) else 'direct'
                if role in ('dcr', 'dlf'):
                    check_one(ctx, cor, buf, pdesc, mode, 'reject', payload, True,
                              'chunk-data-not-followed-by-CRLF', f'[pos={pos} {role}->{sym!r}]', ctype=ctype)
                else:
                    check_one(ctx, cor, buf, pdesc, mode, 'any', payload, True, f'corrupt-{role}', f'[pos={pos} ->{sym!r}]', ctype=ctype)
                ctx.case((cor, buf, repr(pdesc), mode))
        ctx.count('encodings')


def long_unit(ctx, unit):
    """Bodies that arrive in very many tiny chunks (thousands of reads) and peers that fall silent for seconds of
    virtual time: legal ones decode exactly, cuts and broken data terminators late in the stream are still rejected."""
    rng = ctx.rng
    for n, step in ((300, 1), (420, 2)):
        payload = gen_payload(rng)[:0] + bytes(rng.choice(b'\r\n0123456789abcdefXYZ;') for _ in range(n))
        enc, roles, meta = encode(rng, payload, partition=list(range(0, n, step)) + [n])
        for buf, pdesc, mode in ((1024, ('full', None), 'wsgi'), (16, ('one', None), 'wsgi'), (64, ('rand', 5), 'direct'), (16, ('full', None), 'direct')):
            check_one(ctx, enc, buf, pdesc, mode, 'exact', payload, meta['max_size_line'] <= buf, 'legal-many-chunks')
            ctx.case((enc, buf, repr(pdesc), mode))
        end = meta['last_line_end']
        cuts = sorted(set(range(end - 40, end)) | set(rng.sample(range(1, end), 60)))
        for cut in cuts:
            mode = 'wsgi' if cut % 3 else 'direct'
            check_one(ctx, enc[:cut], 1024, rng.choice([('full', None), ('one', None)]), mode, 'reject', payload, True,
                      'prefix-cut-before-last-chunk', f'[many chunks, cut={cut} at {roles[cut]}]')
            ctx.case((enc[:cut], 1024, mode))
        late = [i for i, r in enumerate(roles) if r in ('dcr', 'dlf')][-12:]
        for pos in late:
            cor = enc[:pos] + b'x' + enc[pos + 1:]
            check_one(ctx, cor, 1024, ('full', None), 'wsgi' if pos % 2 else 'direct', 'reject', payload, True,
                      'chunk-data-not-followed-by-CRLF', f'[many chunks, pos={pos}]')
            ctx.case((cor, 1024))
    for _ in range(unit.get('n', 12)):
        payload = gen_payload(rng)
        enc, roles, meta = encode(rng, payload)
        end = meta['last_line_end']
        for k in range(6):
            stall = {rng.randint(0, 6): rng.choice([2.5, 30.0, 400.0])}
            pol = rng.choice(['full', 'one'])
            mode = 'wsgi' if k % 3 else 'direct'
            if k == 0:
                check_one(ctx, enc, 1024, (pol, None, stall), 'wsgi', 'exact', payload, True, 'legal-stalled-peer')
            else:
                cut = rng.randrange(1, end)
                check_one(ctx, enc[:cut], 1024, (pol, None, stall), mode, 'reject', payload, True,
                          'prefix-cut-before-last-chunk', f'[stalled peer, cut={cut} at {roles[cut]}]')
            ctx.case((enc, k, pol, mode, repr(stall)))


def run_unit(ctx, unit):
    if unit['kind'] == 'enc':
        enc_unit(ctx, unit)
    elif unit['kind'] == 'long':
        long_unit(ctx, unit)
    else:
        payload = unit['payload'].encode('latin1') if unit['payload'] is not None else None
        v = check_one(ctx, unit['enc'].encode('latin1'), unit['buf'], tuple(unit['policy']), unit['mode'],
                      unit['expect'], payload, unit['fits'], unit['what'], ctype=unit.get('ctype'))
        print('  outcome:', v)
