"""C19 - building a URL from matched parameters leads back to the same match.

Metamorphic monitor (match -> build -> match) on a router holding only the rule:
parameters are obtained by resolving generated paths, Route.url(*anonymous, **named) builds a
path, which must resolve to the same rule with equal parameter values; the rule's literal
parts must occur verbatim and in order in the built URL.
"""
from vmon import rules as R

RULE = ('single rules from the AST generator (literal and wildcard segments, int/float/re/path filters, adjacent literals and '
        'wildcards, anonymous filtered wildcards passed positionally, every syntax flavour) x parameter assignments obtained by '
        'resolving instantiated and mutated paths (digit strings with leading zeros, signs, long and fractional floats, empty '
        'captures, non-ASCII, CR). Non-trivial = the rule has at least one wildcard and the path matched; distinct = distinct (rule text, path).')
PYOPT = {'quick': 1, 'thorough': 1}     # one unit of every kind is also served by an interpreter started with -O (assert statements compiled out)
REQUIRED = ['units_run_under_python_-O', 'roundtrips_in_a_family_sharing_a_filter', 'rebuilt_after_failing_calls', 'keywords_in_another_order', 'built_under_a_narrow_decimal_context', 'roundtrips', 'with_int', 'with_float', 'with_re', 'with_path', 'with_anonymous_positional', 'adjacent_wildcards',
            'path_followed_by_literal', 'float_needing_positional_notation', 'literals_checked', 'static_rules']
ASSUMPTIONS = ['parameters are exactly those produced by matching (the statement); float digit strings are at most 30 characters',
               'excluded: a number not in canonical spelling that follows a path/re wildcard in the rule (re-spelling it can move the earlier open-ended match; no builder can prevent that), and a negative zero directly after another wildcard',
               'anonymous wildcard values are taken from the reference matcher trace (C01 establishes its agreement with the router)']


def plan(tier, seed):
    if tier == 'quick':
        return [{'kind': 'random', 'rules': 500, 'paths': 12, 'sub': i} for i in range(8)] + [{'kind': 'forced'}, {'kind': 'family'}]
    return [{'kind': 'random', 'rules': 6000, 'paths': 16, 'sub': i} for i in range(32)] + [{'kind': 'forced'}, {'kind': 'family'}]


def wild_values(cast, s):
    """raw values of all wildcards in order (reference trace), converted like the filters do"""
    tr = []
    kw = R.match(cast, s, True, tr)
    if kw is None:
        return None, None
    vals = []
    for k, i, j in tr:
        it = cast[k]
        v = s[i:j]
        if it[2] == 'int':
            v = int(v)
        elif it[2] == 'float':
            v = float(v)
        vals.append((it[1], v))
    return kw, vals


def literals_in_order(ast, url):
    pos = 0
    for it in ast:
        if it[0] == 'lit':
            k = url.find(it[1], pos)
            if k < 0:
                return False
            pos = k + len(it[1])
    return True


def one_rule(ctx, rng, ast, text, paths, forced=False):
    from ombott.router import RadiRouter
    router = RadiRouter()
    try:
        route = router.add(text, 'GET', lambda **kw: kw)
    except Exception as e:  # noqa  refused rules are not part of the domain
        ctx.count('rules_refused')
        return
    cast = R.compile_ast(ast)
    nwild = sum(1 for it in ast if it[0] == 'wild')
    if nwild == 0:
        ctx.count('static_rules')
        url = route.url()
        ctx.case(('static', text), nontrivial=False)
        ep, err = router.resolve('/' + url, ['GET'])
        if err or ep[0].route is not route:
            if not text.endswith('/'):      # rule text ending in a separator is unreachable by design of resolve (strip)
                ctx.violation('static-rule-url-does-not-resolve', f'{text!r}: url {url!r}', {'unit': {'kind': 'one', 'ast': ast, 'text': text, 'path': ''}})
        return
    for p in paths:
        s = p.strip('/')
        ep, err = router.resolve('/' + s, ['GET'])
        if err:
            continue
        kw = ep[1]
        rkw, vals = wild_values(cast, s)
        if rkw is None or rkw != kw:
            # the router matched what the reference matcher does not (that alone is C01's business); the round trip is
            # still judged, purely metamorphically, when all wildcards are named (no reference trace needed)
            ctx.count('reference_disagrees(C01 business)')
            if any(it[0] == 'wild' and it[1] is None for it in cast):
                continue
            wit = {'unit': {'kind': 'one', 'ast': ast, 'text': text, 'path': p}}
            try:
                url = route.url(**kw)
                ep2, err2 = router.resolve('/' + url, ['GET'])
            except Exception as e:  # noqa
                ctx.violation(f'url()-raises-{type(e).__name__}', f'rule {text!r} path {p!r} kw={kw!r}: {e!r}', wit)
                continue
            if err2 or ep2[0].route is not route or ep2[1] != kw:
                ctx.violation('built-url-does-not-lead-back-to-the-match(router-only)', f'rule {text!r} path {p!r} kw={kw!r}: url {url!r} -> {err2 or ep2[1]}', wit)
            continue
        if any(it[2] == 'float' and len(str(v)) > 40 for (_, v), it in zip(vals, [i for i in cast if i[0] == 'wild'])):
            continue
        wilds = [it for it in cast if it[0] == 'wild']
        if any(it[2] == 'float' for it in wilds):
            # digit strings longer than 30 characters are outside the domain
            tr = []
            R.match(cast, s, True, tr)
            if any(cast[k][2] == 'float' and j - i > 30 for k, i, j in tr):
                continue
        # X: a numeric wildcard directly after another wildcard whose matched text is a negative zero ('-0', '-0.0'):
        # normalisation drops the sign that was the only separator, so no builder can satisfy the round trip
        tr = []
        R.match(cast, s, True, tr)
        neg_zero = False
        for (k, i, j) in tr:
            if cast[k][2] in ('int', 'float') and k > 0 and cast[k - 1][0] == 'wild' and s[i:j].startswith('-') and float(s[i:j]) == 0:
                neg_zero = True
        if neg_zero:
            ctx.count('excluded_negative_zero_after_adjacent_wildcard')
            continue
        # X: a numeric wildcard whose matched text is not its canonical spelling ('012', '-0', '٣', '1.50') that comes
        # *after* a path or re wildcard: those match greedily / with look-ahead over text the builder has to normalise
        # ('a/b/142/012' -> 'a/b/142/12' creates a new '/1' for `<p:path>/1`), so no builder can keep the earlier split
        shifted = False
        seen_open = False
        for (k, i, j) in tr:
            f = cast[k][2]
            if f in ('int', 'float'):
                canon = str(int(s[i:j])) if f == 'int' else repr(float(s[i:j]))
                if seen_open and s[i:j] != canon:
                    shifted = True
            if f in ('path', 're'):
                seen_open = True
        if shifted:
            ctx.count('excluded_renormalised_number_after_open_ended_wildcard')
            continue
        args = [v for n, v in vals if n is None]
        named = {n: v for n, v in vals if n is not None}
        wit = {'unit': {'kind': 'one', 'ast': ast, 'text': text, 'path': p}}
        ctx.case((text, s), nontrivial=True)
        ctx.count('roundtrips')
        for it in wilds:
            if it[2]:
                ctx.count('with_' + it[2])
        if args:
            ctx.count('with_anonymous_positional')
        for a, b in zip(ast, ast[1:]):
            if a[0] == 'wild' and b[0] == 'wild':
                ctx.count('adjacent_wildcards')
            if a[0] == 'wild' and a[2] == 'path' and b[0] == 'lit':
                ctx.count('path_followed_by_literal')
        if any(it[2] == 'float' and 'e' in repr(v) for (n, v), it in zip(vals, wilds)):
            ctx.count('float_needing_positional_notation')
        where = f'rule {text!r} path {p!r} params args={args!r} kw={named!r}'
        try:
            url = route.url(*args, **named)
        except AssertionError as e:
            ctx.violation('url()-rejects-a-value-its-own-filter-accepted(AssertionError)', f'{where}: {e!r}', wit)
            continue
        except Exception as e:  # noqa
            ctx.violation(f'url()-raises-{type(e).__name__}', f'{where}: {e!r}', wit)
            continue
        if not isinstance(url, str):
            ctx.violation('url()-returns-non-str', f'{where}: {url!r}', wit)
            continue
        # ... nor of calls that failed before it on the same route object (a missing value, a value of the wrong kind)
        ctx.count('rebuilt_after_failing_calls')
        for bad_args, bad_kw in (((), {}), (args[:-1] if args else (), {k: v for k, v in list(named.items())[:-1]}), (tuple(object() for _ in args), {k: object() for k in named})):
            try:
                route.url(*bad_args, **bad_kw)
            except Exception:  # noqa
                pass
        try:
            url_again = route.url(*args, **named)
        except Exception as e:  # noqa
            url_again = f'<raised {e!r}>'
        if url_again != url:
            ctx.violation('built-url-depends-on-earlier-failed-calls', f'{where}: url {url!r}, after failing calls on the same route {url_again!r}', wit)
            continue
        # the built URL is a function of the rule and the values: not of the order the keywords are written in,
        # nor of the calling thread's decimal context
        if len(named) > 1:
            ctx.count('keywords_in_another_order')
            try:
                url_r = route.url(*args, **dict(reversed(list(named.items()))))
            except Exception as e:  # noqa
                url_r = f'<raised {e!r}>'
            if url_r != url:
                ctx.violation('built-url-depends-on-keyword-order', f'{where}: url {url!r}, with the keywords reversed {url_r!r}', wit)
                continue
        if any(it[2] == 'float' for it in wilds):
            import decimal
            ctx.count('built_under_a_narrow_decimal_context')
            with decimal.localcontext() as dc:
                dc.prec = 5
                try:
                    url_d = route.url(*args, **named)
                except Exception as e:  # noqa
                    url_d = f'<raised {e!r}>'
            if url_d != url:
                ctx.violation('built-url-depends-on-the-decimal-context', f'{where}: url {url!r}, under decimal precision 5 {url_d!r}', wit)
                continue
        ctx.count('literals_checked')
        if not literals_in_order(ast, url):
            ctx.violation('rule-literals-not-verbatim-in-built-url', f'{where}: url {url!r}', wit)
            continue
        ep2, err2 = router.resolve('/' + url, ['GET'])
        if err2:
            fl = any(it[2] == 'float' for it in wilds) and 'e' in url
            ctx.violation('built-url-does-not-resolve:float-exponent-notation' if fl else 'built-url-does-not-resolve',
                          f'{where}: url {url!r} -> {err2[0]}', wit)
            continue
        if ep2[0].route is not route or ep2[1] != kw:
            ctx.violation('built-url-resolves-with-different-parameters', f'{where}: url {url!r} -> {ep2[1]!r}', wit)
            continue
        # anonymous values too
        _, vals2 = wild_values(cast, url.strip('/'))
        if vals2 is not None and vals2 != vals and repr(vals2) != repr(vals):
            ctx.violation('built-url-resolves-with-different-parameters', f'{where}: url {url!r} -> all wildcards {vals2!r} (was {vals!r})', wit)
        if len(ctx.samples) < 8 and (forced or rng.random() < 0.01):
            ctx.sample({'rule': text, 'path': p, 'args': repr(args), 'kwargs': repr(named), 'url': url})


FORCED = [
    ([['lit', 'f/'], ['wild', 'f', 'float', None]], ['f/0.00001', 'f/12345678901234567890000', 'f/-0.0000001', 'f/1.5', 'f/-0', 'f/007.50', 'f/123456789.123456789',
                                                                 'f/0.0000123456789', 'f/123456789012345678', 'f/-0.00000987654321']),
    ([['lit', 'item/'], ['wild', 'id', 'int', None], ['lit', '/'], ['wild', 'slug', None, None]], ['item/12/intro', 'item/-7/x']),
    # a look-ahead that reaches beyond the literal after the wildcard, into the next wildcard's text
    ([['lit', 'issue/'], ['wild', 'num', 're', r'\d+(?=/[a-z])'], ['lit', '/'], ['wild', 'slug', None, None]], ['issue/12/fix-typo', 'issue/7/x']),
    ([['lit', 'v/'], ['wild', 'a', 're', r'[a-z]+(?=-\d\d)'], ['lit', '-'], ['wild', 'n', 'int', None], ['lit', '/'], ['wild', 'rest', 'path', None]], ['v/abc-12/p/q', 'v/x-007/z']),
    ([['wild', 'w', 're', r'\w+?(?=\.\w+\.gz)'], ['lit', '.'], ['wild', 'ext', None, None], ['lit', '.gz']], ['data.tar.gz', 'a.b.gz']),
    ([['lit', 'plot/'], ['wild', 'x', 'float', None], ['lit', '/'], ['wild', 'n', 'int', None], ['lit', '/'], ['wild', 't', None, None]], ['plot/2.5/3/a', 'plot/0.000012345678/-1/b']),
    ([['lit', 'p/'], ['wild', 'p', 'path', None], ['lit', '/end']], ['p/a/b/end', 'p/x/end', 'p/a/end/b/end', 'p//end']),
    ([['lit', 'p/'], ['wild', 'p', 'path', None]], ['p/a/b', 'p/é/1', 'p/a//b/']),
    ([['lit', 'p/'], ['wild', 'p', 'path', None], ['wild', 'n', 'int', None]], ['p/a/b7', 'p/x/-12']),
    ([['lit', 'r/'], ['wild', 'w', 're', '[a-z]+?(?=l)'], ['lit', 'le']], ['r/profile', 'r/ale']),
    ([['lit', 'i/'], ['wild', None, 'int', None], ['lit', '/'], ['wild', 'n', 'int', None]], ['i/007/-12', 'i/0/0']),
    ([['wild', 'a', None, None], ['wild', 'b', None, None]], ['ab', 'x']),
    ([['lit', 'a'], ['wild', 'x', None, None], ['lit', 'b/'], ['wild', 'y', None, None], ['lit', '.html']], ['aXb/Y.html', 'ab/.html']),
    ([['lit', 'static']], ['static']),
    ([['lit', 'a/'], ['wild', None, 're', r'\d{2}'], ['wild', None, 're', '[a-c]+']], ['a/12abc']),
]


def _many_anonymous(n, named_every=0):
    ast = [['lit', 'm%d' % n]]
    vals = []
    for i in range(n):
        ast.append(['lit', '/'])
        if named_every and i % named_every == 1:
            ast.append(['wild', 'n%d' % i, 'int', None])
        else:
            ast.append(['wild', None, 'int' if i % 3 else 're', None if i % 3 else r'[a-z]\d+'])
        vals.append(str(100 + i) if ast[-1][2] == 'int' else 'v%d' % i)
    return ast, ['m%d/' % n + '/'.join(vals), 'm%d/' % n + '/'.join(reversed([v for v in vals if v[0] != 'v'] + [v for v in vals if v[0] == 'v'])) if False else 'm%d/' % n + '/'.join(vals)]


# more anonymous wildcards than one usually writes (positional arguments go to them in the order of the rule)
FORCED += [_many_anonymous(n) for n in (3, 9, 10, 11, 12, 13, 21, 25, 101)] + [_many_anonymous(n, 4) for n in (11, 14, 23)]


def random_unit(ctx, unit):
    rng = ctx.rng
    for i in range(unit['rules']):
        ast = R.gen_rule(rng)
        text = R.render(rng, ast)
        if text.startswith('//'):
            continue
        paths = [R.instantiate(rng, ast) for _ in range(unit['paths'])]
        paths += [R.mutate(rng, p) for p in paths[:3]]
        one_rule(ctx, rng, ast, text, paths)


def forced_unit(ctx, unit):
    rng = ctx.rng
    for ast, paths in FORCED:
        for fl in range(6):
            text = R.render(rng, ast, flavour=fl)
            one_rule(ctx, rng, ast, text, paths, forced=True)


FAMILIES = [
    # rules sharing one filter text (with different selectors, or none), registered one after the other: (rule, paths it matches)
    [('/img/<k.rex((png)|(jpg))[1]>', ['/img/png']), ('/pic/<k.rex((png)|(jpg))[2]>', ['/pic/jpg']), ('/any/<k.rex((png)|(jpg))>', ['/any/png', '/any/jpg']),
     ('/t/<k.rex((png)|(jpg))[1]>/x', ['/t/png/x']), ('/u/<k.rex((png)|(jpg))>.<n:int>', ['/u/jpg.5', '/u/png.-3']), ('/w/<k.rex((png)|(jpg))[2]>', ['/w/jpg'])],
    [('/n/<a:int>', ['/n/5', '/n/-12']), ('/n2/<b:int>/x', ['/n2/7/x']), ('/n3/<a:int>-<b:int>', ['/n3/1-2', '/n3/-1--2'])],
    [('/f/<a:float>', ['/f/1.5', '/f/3']), ('/f2/<b:float>/x', ['/f2/0.25/x'])],
    [('/r/<a:re:[a-z]+>', ['/r/abc']), ('/r2/<b:re:[a-z]+>/x', ['/r2/q/x']), ('/r3/<a:re:[a-z]+>.<b:re:[a-z]+>', ['/r3/ab.cd'])],
    [('/p/<a:path>', ['/p/a/b']), ('/p2/<b:path>/end', ['/p2/x/y/end']), ('/p3/<a:path>', ['/p3/q'])],
]


def family_unit(ctx, unit):
    """Rules that share a filter (the compiled filters are shared process-wide), added to one router one at a time in every
    rotation of the family; after each addition every rule registered so far makes its round trip.  The oracle is the
    statement itself: the built URL resolves to the same route with the same parameters."""
    from ombott.router import RadiRouter
    for fam in FAMILIES:
        for rot in range(len(fam)):
            order = fam[rot:] + fam[:rot]
            for rev in (False, True):
                seq = order[::-1] if rev else order
                router = RadiRouter()
                routes = []
                for rule, paths in seq:
                    routes.append((rule, router.add(rule, 'GET', lambda **kw: kw), paths))
                    for rule2, route, paths2 in routes:
                        for pth in paths2:
                            ctx.case(('fam', tuple(r for r, _ in seq[:len(routes)]), pth), nontrivial=True)
                            ctx.count('roundtrips_in_a_family_sharing_a_filter')
                            wit = {'unit': {'kind': 'note', 'rules_registered_in_this_order': [r for r, _, _ in routes], 'rule': rule2, 'path': pth}}
                            ep, err = router.resolve(pth, ['GET'])
                            if err or ep[0].route is not route:
                                ctx.violation('family:path-does-not-resolve-to-its-rule', f'{pth!r} with rules {[r for r, _, _ in routes]}: {err or ep[0].route.rule}', wit)
                                continue
                            kw = dict(ep[1])
                            try:
                                url = route.url(**kw)
                            except Exception as e:  # noqa
                                ctx.violation(f'url()-raises-{type(e).__name__}', f'rule {rule2!r} (rules registered: {[r for r, _, _ in routes]}) path {pth!r} params {kw!r}: {e!r}', wit)
                                continue
                            ep2, err2 = router.resolve('/' + url, ['GET'])
                            if err2 or ep2[0].route is not route or ep2[1] != ep[1]:
                                ctx.violation('built-url-does-not-lead-back-to-the-match(router-only)', f'rule {rule2!r} path {pth!r} params {kw!r}: url {url!r} -> {err2 or ep2[1]}', wit)
    ctx.sample({'families': [[r for r, _ in f] for f in FAMILIES[:2]]})


def run_unit(ctx, unit):
    k = unit['kind']
    if k == 'family':
        return family_unit(ctx, unit)
    if k == 'random':
        random_unit(ctx, unit)
    elif k == 'forced':
        forced_unit(ctx, unit)
    elif k == 'one':
        one_rule(ctx, ctx.rng, unit['ast'], unit['text'], [unit['path']], forced=True)
