"""C20 - framework error pages never reflect request data unescaped.

Markers that would create markup, entities, attribute breaks or format-string substitutions
are injected into the path, the query string and the Host / X-Forwarded-Host headers of
requests that end in every framework-generated error (404, 405, 400, 413, 500, last-resort
page), with and without `Accept: application/json`, debug off.  The page is parsed with
html.parser.HTMLParser (convert_charrefs off, so entity references are visible): nothing
carrying a marker id may be an element, an attribute or an entity; every marker id must lie
in text that, unescaped, shows the marker as it was sent; format-string pieces must come out
literally.  JSON bodies go through json.loads.
"""
import json
import re
import html
from html.parser import HTMLParser
from urllib.parse import quote as urlquote
from vmon.wsgi import make_environ, call_app, RecStream

RULE = ('error kinds {404, 405, 400 undecodable path, 400 malformed chunked body, 400 malformed multipart, 413, 500 handler crash, 500 '
        'unsupported return type, last-resort page via failing error handler} x rendering {HTML, JSON} x marker payloads (tags, attribute '
        'breakers, entities, quotes, braces and str.format syntax such as {0} {e.status} {url!r} {e.__class__}) placed in path, query '
        'string, Host and X-Forwarded-Host; observed through Ombott.__call__ with debug off. Non-trivial = a marker reached the request; '
        'distinct = distinct (error kind, rendering, marker placement and payload).')
PYOPT = {'quick': 1, 'thorough': 1}     # one unit of every kind is also served by an interpreter started with -O (assert statements compiled out)
REQUIRED = ['units_run_under_python_-O', 'application_mounted_below_a_script_name', 'unrelated_request_of_the_other_kind_served_before', 'addresses_with_hundreds_of_characters_to_escape', 'json_documents_of_graded_sizes', 'debug_switched_off_with_another_falsy_value', 'addresses_with_utf8_text_in_wsgi_form', 'addresses_of_thousands_of_characters', 'stock_page_reached_through_default_error_handler()', 'third_error_of_a_chain_rendered', 'debugging_application_in_same_process', 'tag_structure_compared_with_baseline', 'html_pages_parsed', 'json_bodies_parsed', 'marker_ids_found_escaped', 'kind_404', 'kind_405', 'kind_400_path', 'kind_400_body',
            'kind_413', 'kind_500', 'kind_last_resort', 'in_query', 'in_host', 'in_path', 'format_syntax_markers']
ASSUMPTIONS = ['debug is off', 'text the application itself supplies (abort(400, "<i>..")) is not request data',
               'the page is HTML: markup is what html.parser recognises as a tag, attribute or entity']

PAYLOADS = [
    '<zq{i} onmouseover=alert(1)>', '</tt><script>zq{i}()</script>', '"zq{i}\'', '&zq{i};', '&#60;zq{i}', '<img src=x onerror=zq{i}>',
    "'><svg/onload=zq{i}>", 'zq{i}{{0}}', 'zq{i}{{e.status}}', 'zq{i}{{url!r}}', 'zq{i}{{e.__class__.__mro__}}', 'zq{i}{{exception}}{{traceback}}',
    'zq{i}{{', 'zq{i}}}', 'zq{i}{{e.body', '<!--zq{i}', ']]>zq{i}<![CDATA[', 'zq{i}\\x3cb\\x3e', '<zq{i}', 'zq{i}>', '%3Czq{i}%3E', 'zq{i}&lt;b&gt;',
    '<ZQ{i} a="b">', 'javascript:zq{i}', ' <zq{i}>', 'é<zq{i}>日', '{{0.zq{i}}}', '{{zq{i}!x}}',
    # what a JSON string cannot hold as it is: backslashes (also as the very last character), line breaks, tabs, other control characters
    '..\\..\\zq{i}\\win.ini', 'zq{i}\\', 'zq{i}\nnext<b>', 'zq{i}\tcol', 'zq{i}\x08\x0c\x1f', '\\"zq{i}\\u0022',
    # look-alikes of the markup characters (fullwidth, small forms) and invisible characters: harmless as they are, markup after a normalisation
    '\uff1czq{i} onerror=alert(1)\uff1e', '\ufe64zq{i}\ufe65', '\uff02zq{i}\uff07\uff1e', '\uff1c\u200bscript\uff1ezq{i}\uff1c/script\uff1e', '\u202ezq{i}\u2066',
]
FORMAT_RE = re.compile(r'\{[^{}]*\}|\{|\}')


class Page(HTMLParser):
    def __init__(self):
        super().__init__(convert_charrefs=False)
        self.tags = []
        self.attrs = []
        self.text = []
        self.entities = []
        self.comments = []
        self.decls = []

    def handle_starttag(self, tag, attrs):
        self.tags.append(tag)
        self.attrs.extend(attrs)

    def handle_endtag(self, tag):
        self.tags.append('/' + tag)

    def handle_startendtag(self, tag, attrs):
        self.handle_starttag(tag, attrs)

    def handle_data(self, data):
        self.text.append(data)

    def handle_entityref(self, name):
        self.entities.append(name)
        self.text.append('&' + name + ';')

    def handle_charref(self, name):
        self.text.append('&#' + name + ';')

    def handle_comment(self, data):
        self.comments.append(data)

    def handle_decl(self, d):
        self.decls.append(d)

    def unknown_decl(self, d):
        self.decls.append(d)

    def handle_pi(self, d):
        self.decls.append(d)


KNOWN_TAGS = {'html', 'head', 'title', 'style', 'body', 'h1', 'h2', 'p', 'tt', 'pre', 'br', 'b', 'i'}


def check_html(ctx, body, markers, kind, wit):
    """markers: list of (id, payload-as-sent-text, where)"""
    try:
        text = body.decode('utf8')
    except UnicodeError:
        ctx.violation('error-page-not-utf8', f'{kind}: {body[:80]!r}', wit)
        return
    pg = Page()
    pg.feed(text)
    pg.close()
    ctx.count('html_pages_parsed')
    low = text.lower()
    for mid, payload, where in markers:
        m = mid.lower()
        bad_tags = [t for t in pg.tags if m in t.lower()]
        bad_attrs = [a for a in pg.attrs if m in (a[0] or '').lower() or m in (a[1] or '').lower()]
        bad_ent = [e for e in pg.entities if m in e.lower()]
        bad_other = [c for c in pg.comments + pg.decls if m in c.lower()]
        if bad_tags or bad_attrs:
            ctx.violation(f'request-data-creates-markup-in-error-page:{where}', f'{kind}: marker {payload!r} in {where} -> tags {bad_tags[:3]} attrs {bad_attrs[:3]}', wit)
            return
        if bad_ent:
            ctx.violation(f'request-data-creates-entity-in-error-page:{where}', f'{kind}: marker {payload!r} in {where} -> entity &{bad_ent[0]};', wit)
            return
        if bad_other:
            ctx.violation(f'request-data-creates-comment-or-declaration:{where}', f'{kind}: marker {payload!r} in {where}', wit)
            return
        if m in low:
            ctx.count('marker_ids_found_escaped')
    # format-string pieces are not substituted: look at the unescaped text of the page
    shown = html.unescape(''.join(pg.text))
    for mid, payload, where in markers:
        if mid in shown:
            pieces = FORMAT_RE.findall(payload)
            if pieces:
                # the page shows the URL through repr(); braces are never touched by repr or by URL quoting of query/host
                for pc in pieces:
                    if where != 'path' and pc not in shown:
                        ctx.violation(f'format-syntax-in-request-data-was-interpreted:{where}', f'{kind}: {payload!r} in {where}: piece {pc!r} missing from page text', wit)
                        return


def check_json(ctx, r, kind, wit):
    ctype = r.header('Content-Type', '')
    if not ctype.startswith('application/json'):
        ctx.violation('json-requested-but-error-not-json', f'{kind}: Content-Type {ctype!r}', wit)
        return
    try:
        obj = json.loads(r.body.decode('utf8'))
    except Exception as e:  # noqa
        ctx.violation('json-error-body-invalid', f'{kind}: {e!r}: {r.body[:120]!r}', wit)
        return
    ctx.count('json_bodies_parsed')
    if not isinstance(obj, dict):
        ctx.violation('json-error-body-not-an-object', f'{kind}: {obj!r}', wit)


def build_app(debug=False):
    import ombott
    app = ombott.Ombott({'max_body_size': 64, 'max_memfile_size': 32, 'debug': debug})

    @app.route('/only-get')
    def only_get():
        return 'ok'

    @app.route('/crash/<rest:path>')
    def crash(rest):
        raise RuntimeError('crash with request data: ' + app.request.query_string + app.request.url)

    @app.route('/crash')
    def crash0():
        raise RuntimeError('crash with request data: ' + app.request.query_string + app.request.url)

    @app.route('/badtype')
    def badtype():
        return [object()]

    @app.route('/body', method='POST')
    def body():
        return 'read %d' % len(app.request.body.read())

    @app.route('/forms', method='POST')
    def forms():
        return 'forms %d' % len(app.request.forms)

    return app


def build_delegating_app():
    """The same routes; its error handlers do something of their own (here: count) and then hand over to the framework's stock page
    through the public Ombott.default_error_handler(err) - the page is still framework-generated.  A 451 handler answers with another
    error, whose handler answers with a third one (rendered by the stock page)."""
    app = build_app()
    seen = {'n': 0}
    for code in (404, 405, 400, 413, 500):
        def h(err, _c=code):
            seen['n'] += 1
            return app.default_error_handler(err)
        app.error(code)(h)
    return app


def build_chain_app():
    import ombott
    app = build_app()
    app.error(404)(lambda err: ombott.HTTPError(403, 'second error'))
    app.error(403)(lambda err: ombott.HTTPError(410, 'third error'))
    return app


def build_lr_app():
    """application whose error handler itself fails -> last-resort page"""
    import ombott
    app = ombott.Ombott({'debug': False})

    @app.error(404)
    def e404(err):
        raise RuntimeError('error handler failed ' + app.request.url)

    @app.error(500)
    def e500(err):
        raise RuntimeError('error handler failed ' + app.request.url)

    @app.route('/crash')
    def crash0():
        raise RuntimeError('x')
    return app


LONG = {}


def make_case(rng, i, kind, benign_of=None):
    """-> (query string, headers, path suffix, markers).  benign_of: the markers of a previous call; the same
    placements are produced with the bare marker id instead of the payload (baseline page)."""
    markers = []

    def mk(where):
        k = len(markers)
        mid = 'zq%d' % (i * 10 + k)
        if benign_of is not None:
            txt = mid
        else:
            txt = rng.choice(PAYLOADS).format(i=i * 10 + k)
            if where == 'path':
                # which rule a path with control characters matches is the router's business (C01), not the page's
                txt = ''.join(c if ord(c) >= 32 else '_' for c in txt)
        markers.append((mid, txt, where))
        return txt

    qs = ''
    headers = {}
    path_extra = ''
    if benign_of is None:
        places = rng.sample(['query', 'host', 'path', 'xfh'], rng.randint(1, 3))
    else:
        places = benign_of
    if 'query' in places:
        qs = ('n=caf\xc3\xa9&' if i % 3 == 2 else '') + 'a=' + mk('query') + '&' + mk('query')
        if i % 3 == 2:
            LONG['utf8'] = LONG.get('utf8', 0) + 1
    if i % 5 == 3:
        # a very long address (thousands of characters): padding in the query string, the same in the baseline request
        qs = (qs + '&' if qs else '') + 'pad=' + 'p' * (700 * (1 + i % 7))
        LONG['n'] = LONG.get('n', 0) + 1
    if 'host' in places:
        # every third host carries UTF-8 text the way a WSGI server hands it over (its bytes read as Latin-1)
        headers['Host'] = ('b\xc3\xbccher.example' if i % 3 == 1 else 'example.com') + mk('host')
        if i % 3 == 1:
            LONG['utf8'] = LONG.get('utf8', 0) + 1
    if 'xfh' in places:
        headers['X-Forwarded-Host'] = mk('host') + '.example'
    if 'path' in places:
        t = mk('path')
        path_extra = '/' + t.replace('/', '%2F')   # a path segment (the separator itself is not injectable into one segment)
    return qs, headers, path_extra, markers, places


def build_env(rng_choice, kind, qs, headers, path_extra, markers, as_json, accept):
    headers = dict(headers)
    if as_json:
        headers['Accept'] = accept
    kw = dict(qs=qs, headers=headers)
    target = 'app'
    if kind == '404' and path_extra and rng_choice < 0.35:
        # a path that urljoin() takes for an absolute URL with a malformed host: building request.url fails
        # (ValueError); whatever page results (the 404 page or the last-resort page) must still be clean
        env = make_environ('GET', '/' + ('http://[' if rng_choice < 0.2 else 'https://[::1/') + path_extra.lstrip('/'), **kw)
        exp = (404, 500)
    elif kind == '404':
        env = make_environ('GET', '/nothing-here' + path_extra, **kw)
        exp = 404
    elif kind == '405':
        # the path must match the route: markers can not go into it
        markers = [m for m in markers if m[2] != 'path']
        env = make_environ('DELETE', '/only-get', **kw)
        exp = 405
    elif kind == '400_path':
        env = make_environ('GET', '/x', raw_path='/caf\xe9' + path_extra.encode('utf8', 'replace').decode('latin1'), **kw)
        exp = 400
    elif kind == '400_body':
        markers = [m for m in markers if m[2] != 'path']
        if rng_choice < 0.5:
            env = make_environ('POST', '/body', stream=RecStream(b'zz\r\nnot chunked'), content_length=None, chunked=True, **kw)
        else:
            env = make_environ('POST', '/body', stream=RecStream(b'5\r\nabc'), content_length=None, chunked=True,
                               content_type='multipart/form-data; boundary=B', **kw)
        exp = 400
    elif kind == '413':
        markers = [m for m in markers if m[2] != 'path']
        env = make_environ('POST', '/body', body=b'x' * 500, **kw)
        exp = 413
    elif kind == '500':
        if rng_choice < 0.3:
            markers = [m for m in markers if m[2] != 'path']
            env = make_environ('GET', '/badtype', **kw)
        else:
            env = make_environ('GET', '/crash' + path_extra, **kw)
        exp = 500
    else:   # last resort
        target = 'lr'
        if rng_choice < 0.5:
            env = make_environ('GET', '/nothing' + path_extra, **kw)
        else:
            markers = [m for m in markers if m[2] != 'path']
            env = make_environ('GET', '/crash', **kw)
        exp = 500
    return env, exp, markers, target, headers


def tag_structure(body):
    pg = Page()
    pg.feed(body.decode('utf8', 'replace'))
    pg.close()
    return pg.tags, sorted(set(a[0] for a in pg.attrs)), len(pg.comments), len(pg.decls)


def run_kind(ctx, app, lr_app, rng, i, kind, as_json, more_apps=None):
    qs, headers, path_extra, markers, places = make_case(rng, i, kind)
    accept = rng.choice(['application/json', 'application/json, text/html;q=0.5', 'application/json; charset=utf-8'])
    rc = rng.random()
    env, exp, markers, target, headers = build_env(rc, kind, qs, headers, path_extra, markers, as_json, accept)
    variant = None
    if more_apps and target == 'app' and not isinstance(exp, tuple):
        variant = ('plain', 'delegating', 'debug_none', 'chained' if kind == '404' else 'delegating', 'debug_zero', 'plain', 'debug_empty')[(i // len(KINDS) // 2) % 7]
        if variant.startswith('debug_'):
            # "debug off" spelled with another falsy value
            app = more_apps[variant]
            ctx.count('debug_switched_off_with_another_falsy_value')
        if variant == 'delegating':
            app = more_apps['delegating']
            ctx.count('stock_page_reached_through_default_error_handler()')
        elif variant == 'chained':
            app = more_apps['chained']
            exp = 410
            ctx.count('third_error_of_a_chain_rendered')
    # the worker thread has just served somebody else: another host, the other kind of client (HTML / JSON)
    call_app(app if target == 'app' else lr_app, make_environ('GET', '/somebody-else', qs='who=previous-client',
                                                              headers={'Host': 'previous-client.example', 'Accept': 'text/html' if as_json else 'application/json'}))
    ctx.count('unrelated_request_of_the_other_kind_served_before')
    if i % 3 == 1:
        # the application is mounted below a prefix (SCRIPT_NAME), which error pages like to show as well
        env['SCRIPT_NAME'] = ('/mount', '/m<b>ount', '/app/v1')[i % 9 // 3]
        ctx.count('application_mounted_below_a_script_name')
    r = call_app(app if target == 'app' else lr_app, env)
    if b'previous-client' in r.body:
        ctx.violation('error-page-shows-the-previous-request', f'{kind}: {r.body[-200:]!r}', {'unit': {'kind': 'note', 'error_kind': kind, 'json': as_json}})
    # baseline: same placements, bare marker ids
    bqs, bheaders, bpath, bmarkers, _ = make_case(rng, i, kind, benign_of=places)
    benv, _, _, _, _ = build_env(rc, kind, bqs, bheaders, bpath, bmarkers, as_json, accept)
    if 'SCRIPT_NAME' in env and env['SCRIPT_NAME']:
        benv['SCRIPT_NAME'] = '/mount' if '<' not in env['SCRIPT_NAME'] else '/mbount'
    rb = call_app(app if target == 'app' else lr_app, benv)
    wit = {'unit': {'kind': 'note', 'error_kind': kind, 'json': as_json, 'path': env['PATH_INFO'], 'qs': qs, 'headers': headers}}
    ctx.count('kind_' + ('last_resort' if kind == 'last' else kind))
    for _, _, where in markers:
        ctx.count('in_' + where)
    if any(FORMAT_RE.search(p) for _, p, _ in markers):
        ctx.count('format_syntax_markers')
    ctx.case((kind, as_json, qs, tuple(sorted(headers.items())), path_extra), nontrivial=bool(markers))
    if r.escaped is not None or r.sr_calls == 0:
        ctx.violation('error-response-broken', f'{kind}: escaped={r.escaped!r}', wit)
        return
    if isinstance(exp, tuple):
        ctx.count('paths_for_which_the_request_url_cannot_be_built')
        if r.code in exp:
            exp = r.code
            if r.code == 500:
                kind = 'last'
    if r.code != exp:
        # request data changed the kind of answer (e.g. a format error turned a 404 into a 500)
        ctx.violation(f'request-data-changed-error-kind:{exp}->{r.code}', f'{kind}: expected {exp}, got {r.status}; qs={qs!r} headers={headers!r}: {r.errors[-300:]}', wit)
        return
    ctype = r.header('Content-Type', '')
    is_html = ctype.startswith('text/html')
    if kind != 'last' and not as_json and not is_html:
        ctx.violation('error-page-content-type', f'{kind}: {ctype!r}', wit)
    if kind != 'last' and as_json:
        check_json(ctx, r, kind, wit)
    elif as_json and ctype.startswith('application/json'):
        # the last-resort page may be HTML whatever was asked for; if it calls itself JSON it has to be JSON
        check_json(ctx, r, kind, wit)
        return
    if is_html or kind == 'last':
        check_html(ctx, r.body, markers, kind, wit)
        # the markup of the page is the same as with harmless values in the same places
        if rb.code == r.code:
            ctx.count('tag_structure_compared_with_baseline')
            if tag_structure(r.body) != tag_structure(rb.body):
                ctx.violation('request-data-changes-the-markup-of-the-error-page', f'{kind}: tags {tag_structure(r.body)[0]} vs baseline {tag_structure(rb.body)[0]}; '
                              f'markers {[m[1] for m in markers]}', wit)
    if i % 173 == 0:
        ctx.sample({'error_kind': kind, 'json': as_json, 'path': env['PATH_INFO'], 'query': qs, 'headers': headers, 'status': r.status,
                    'page_excerpt': re.sub(r'\s+', ' ', r.body.decode('utf8', 'replace'))[-260:]})


def json_sweep(ctx, app):
    """JSON error documents of every size from a few hundred bytes to beyond 8 KB whose text is dense in characters JSON has to escape
    (quotes, backslashes, line breaks): whatever the size, the body is valid JSON."""
    for n in list(range(40, 1500, 3)) + list(range(1500, 4200, 53)):
        for kind in ('500', '404'):
            qs = ('"\\\n\t<' * n)[:n * 2 + n % 5]
            env = make_environ('GET', '/crash' if kind == '500' else '/nothing-here', qs='q=' + qs.replace('\n', '%0A').replace('\t', '%09'), headers={'Accept': 'application/json'})
            r = call_app(app, env)
            ctx.count('json_documents_of_graded_sizes')
            ctx.case(('json-sweep', kind, n), nontrivial=True)
            check_json(ctx, r, kind, {'unit': {'kind': 'note', 'error_kind': kind, 'json': True, 'query_length': len(qs)}})


def crowd_sweep(ctx, app, lr_app):
    """Addresses with very many characters that need escaping in front of the markup (a GET form with hundreds of fields, runs of
    quotes and ampersands): the N-th special character is escaped like the first."""
    for N in (0, 3, 100, 254, 255, 256, 257, 300, 511, 512, 513, 1000, 1025, 5000):
        for fill in ('&', '"', "'", '<>', '&amp;'):
            mid = 'zq%dx%d' % (N, len(fill))
            payload = '<%s onmouseover=alert(1)>' % mid
            if fill == '&':
                qs = ''.join('f%d=1&' % j for j in range(N)) + 'q=' + payload
            else:
                qs = 'pre=' + fill * N + '&q=' + payload
            for kind, env in (('404', make_environ('GET', '/nothing-here', qs=qs)), ('405', make_environ('DELETE', '/only-get', qs=qs)), ('500', make_environ('GET', '/crash', qs=qs)),
                              ('last', make_environ('GET', '/crash', qs=qs))):
                r = call_app(lr_app if kind == 'last' else app, env)
                ctx.count('addresses_with_hundreds_of_characters_to_escape')
                ctx.case(('crowd', N, fill, kind), nontrivial=True)
                wit = {'unit': {'kind': 'note', 'error_kind': kind, 'specials_in_front_of_the_markup': N, 'special': fill}}
                if r.code != {'404': 404, '405': 405, '500': 500, 'last': 500}[kind]:
                    ctx.violation(f'request-data-changed-error-kind:{kind}->{r.code}', f'{N} x {fill!r} in the query: {r.status}', wit)
                    continue
                check_html(ctx, r.body, [(mid, payload, 'query')], kind, wit)


KINDS = ['404', '405', '400_path', '400_body', '413', '500', 'last']


def plan(tier, seed):
    if tier == 'quick':
        return [{'kind': 'pages', 'n': 700, 'sub': i} for i in range(4)]
    return [{'kind': 'pages', 'n': 6000, 'sub': i} for i in range(16)]


def selftest():
    # the page checker fires on an unescaped reflection and stays silent on an escaped one
    from vmon.runner import Ctx
    c = Ctx('C20', 'quick', 0)
    check_html(c, b'<p>url <tt>\'http://h/?a=<zq1 onx=1>\'</tt></p>', [('zq1', '<zq1 onx=1>', 'query')], 'selftest', None)
    assert c.violations, 'C20 page monitor is blind'
    c = Ctx('C20', 'quick', 0)
    check_html(c, b'<p>url <tt>\'http://h/?a=&lt;zq1 onx=1&gt;\'</tt></p>', [('zq1', '<zq1 onx=1>', 'query')], 'selftest', None)
    assert not c.violations, c.violations


def run_unit(ctx, unit):
    if unit['kind'] == 'note':
        print('  witness:', unit)
        return
    rng = ctx.rng
    app = build_app()
    lr_app = build_lr_app()
    more = {'delegating': build_delegating_app(), 'chained': build_chain_app(), 'debug_none': build_app(None), 'debug_zero': build_app(0), 'debug_empty': build_app('')}
    # debug is a per-application setting: a debugging application created later in the same process must not
    # switch the exception text and traceback on for the applications under test
    import ombott
    other = ombott.Ombott({'debug': True})
    other.setup({'debug': True})
    other.route('/x', 'GET', lambda: 1 / 0)
    call_app(other, make_environ('GET', '/x'))
    ctx.count('debugging_application_in_same_process')
    for i in range(unit['n']):
        kind = KINDS[i % len(KINDS)]
        run_kind(ctx, app, lr_app, rng, i, kind, as_json=(i // len(KINDS)) % 2 == 1, more_apps=more)
    if unit.get('sub', 0) == 0:
        json_sweep(ctx, app)
    if unit.get('sub', 0) == 1:
        crowd_sweep(ctx, app, lr_app)
    ctx.count('addresses_of_thousands_of_characters', LONG.get('n', 0) // 2)
    ctx.count('addresses_with_utf8_text_in_wsgi_form', LONG.get('utf8', 0) // 2)
