"""C02 - method dispatch: verb, ANY and HEAD fallbacks, 405 with exact Allow.

Reference method table (a dict per rule, updated by the same operations the application
sees, recording only what the application accepted) beside the real router.  Dispatch
reference: first registered of [VERB, GET if VERB is HEAD, ANY]; otherwise 405 whose Allow
is exactly the sorted registered names; a path matching no route is 404.  Observed through
Ombott.__call__ (status line, Allow, which recording handler ran, HEAD carries no body) and
through RadiRouter.resolve.
"""
import itertools
from vmon.wsgi import make_environ, call_app

RULE = ('exhaustive units: every pair of method subsets of {GET,HEAD,POST,PUT,ANY} on two routes (one static, one with a wildcard) x request '
        'verbs {GET,HEAD,POST,PUT,DELETE,get,Head,ANY,BREW} x paths {route 1, route 2, unknown path, hook-only prefix}; sequence units: random '
        'pair units: every ordered pair of 11 method names (incl. extension verbs whose names contain one another: PATCH/PROPPATCH, LOCK/UNLOCK) on one route, '
        'one of them removed (str / list / RouteMethod.remove) or re-registered with overwrite=True (same rule text or the rule spelled with another wildcard name); '
        'operation sequences over 4 rules (two of them also spelled with another wildcard name) - route(method=str|list, upper/lower/mixed case, ANY), duplicate registration (must be rejected '
        'atomically), overwrite=True, Route.remove_method, RouteMethod.remove, method shortcuts - each followed by a probe of every verb x path. '
        'Non-trivial = the dispatch needed a fallback, a 405 or a case conversion; distinct = distinct (table, verb, path).')
PYOPT = {'quick': 1, 'thorough': 1}     # one unit of every kind is also served by an interpreter started with -O (assert statements compiled out)
REQUIRED = ['units_run_under_python_-O', 'own_verb', 'head_to_get', 'to_any', 'head_to_any', 'status_405', 'status_404', 'allow_compared', 'lowercase_request_verb',
            'lowercase_registration', 'rejected_duplicate', 'overwritten', 'removed_method', 'head_no_body', 'resolve_compared', 'empty_table_405', 'method_names_given_as_a_one_shot_iterator', 'paths_ending_in_a_truncated_utf8_sequence', 'respelled_rule', 'candidates_given_as_a_tuple', 'removed_names_given_as_a_tuple', 'whole_route_removed_then_possibly_registered_again', 'candidate_lists_of_four_and_more_names', 'verb_replaced_by_a_before_request_hook', 'removal_of_an_empty_selection_of_names']
EXHAUSTIVE = {'quick': False, 'thorough': True,
              'quick_note': 'complete for one route: all 32 method subsets x 9 verbs x 4 paths',
              'thorough_note': 'complete for two routes: all 32x32 pairs of method subsets x 9 verbs x 4 paths'}
ASSUMPTIONS = ['a route whose methods were all removed still matches its path (405 with an empty Allow), as the statement says 404 is never given for a path that matches a route',
               'rules are kept clear of C01 corner cases (no CR); a rule spelled with another wildcard name addresses the same route and method table']

METHODS = ['GET', 'HEAD', 'POST', 'PUT', 'ANY']
# extension verbs, some of whose names contain one another (PATCH/PROPPATCH, LOCK/UNLOCK, GET/GETLOCK)
EXT = ['DELETE', 'PATCH', 'PROPPATCH', 'LOCK', 'UNLOCK', 'OPTIONS', 'GETLOCK', 'UPDATEREDIRECTREF', 'TRACE', 'CONNECT', 'TRACK', 'trace', 'X-REINDEX-EVERYTHING-' + 'Z' * 44]     # incl. long method names
# the same route spelled with another wildcard name: one route, one method table
CANON = {'/w/<y>': '/w/<x>', '/w/<y>/tail': '/w/<x>/tail'}
VERBS = ['GET', 'HEAD', 'POST', 'PUT', 'DELETE', 'get', 'Head', 'ANY', 'BREW']


def expected(table, verb):
    """table: dict METHOD -> handler id (registered, upper-case).  -> ('handler', id, via) | ('405', allow)"""
    v = verb.upper()
    cands = [v] + (['GET'] if v == 'HEAD' else []) + ['ANY']
    for k, c in enumerate(cands):
        if c in table:
            via = 'own_verb' if k == 0 else ('head_to_get' if c == 'GET' else ('head_to_any' if v == 'HEAD' else 'to_any'))
            if c == 'ANY' and v == 'ANY':
                via = 'own_verb'
            return ('handler', table[c], via)
    return ('405', ','.join(sorted(table)))


class World:
    """A real application plus the reference tables."""

    def __init__(self):
        import ombott
        self.ombott = ombott
        self.app = ombott.Ombott()
        self.tables = {}      # rule -> {METHOD: hid}
        self.calls = []
        self.hid = 0
        self.app.on_route('/hookonly', lambda p: None)

        def tunnel():
            # method tunnelling as middleware-in-a-hook does it: the verb of the request is replaced before routing
            rq = self.app.request
            ov = rq.headers.get('X-HTTP-Method-Override')
            if ov:
                how = rq.headers.get('X-Override-How', '')
                if 'read' in how:
                    rq.method                       # "only a POST may be tunnelled": the hook looks at the verb first
                if 'item' in how:
                    rq['REQUEST_METHOD'] = ov
                else:
                    rq.environ['REQUEST_METHOD'] = ov
        self.app.add_hook('before_request', tunnel)

    def handler(self):
        self.hid += 1
        hid = 'h%d' % self.hid

        def h(**kw):
            self.calls.append(hid)
            return 'body-of-' + hid
        h.__name__ = hid
        return hid, h

    def register(self, ctx, rule, methods, overwrite=False, via='route'):
        """methods as given by the user (str or list, any case).  Returns True if accepted."""
        hid, h = self.handler()
        up = [methods.upper()] if isinstance(methods, str) else [m.upper() for m in methods]
        spelled, rule = rule, CANON.get(rule, rule)
        if spelled != rule:
            ctx.count('respelled_rule')
        tbl = self.tables.get(rule)
        clash = tbl is not None and any(m in tbl for m in up)
        try:
            if via == 'shortcut':
                getattr(self.app, methods.lower())(spelled, overwrite=overwrite)(h)   # decorator form of the shortcut
            else:
                given = methods
                if isinstance(methods, list):
                    # any iterable of names will do: a list, a tuple, a one-shot iterator
                    given = (methods, tuple(methods), (m for m in methods), map(str, methods))[self.hid % 4]
                    if self.hid % 4 >= 2:
                        ctx.count('method_names_given_as_a_one_shot_iterator')
                self.app.route(spelled, given, h, overwrite=overwrite)
            accepted = True
        except Exception as e:  # noqa
            accepted = False
            err = e
        if accepted:
            if clash and not overwrite:
                ctx.violation('duplicate-method-registration-accepted-without-overwrite', f'{rule} {methods}: table {tbl}', None)
            t = self.tables.setdefault(rule, {})
            if clash:
                ctx.count('overwritten')
            for m in up:
                t.pop(m, None) if False else None
                t[m] = hid
        else:
            if not clash:
                ctx.violation('registration-refused-without-a-clash', f'{rule} {methods}: {err!r}', None)
            else:
                ctx.count('rejected_duplicate')
        return accepted

    def remove_method(self, ctx, rule, method, via_object=False):
        spelled, rule = rule, CANON.get(rule, rule)
        tbl = self.tables.get(rule)
        if tbl is None:
            return
        route = self.app.router[{spelled}]
        if route is None:
            ctx.violation('registered-route-not-found-by-rule', rule, None)
            return
        if via_object:
            rm = route.methods.get(method)
            if rm is None:
                return
            rm.remove()
        else:
            if isinstance(method, list) and len(tbl) % 2:
                route.remove_method(tuple(method))
                ctx.count('removed_names_given_as_a_tuple')
            else:
                route.remove_method(method)
        if isinstance(method, str):
            method = [method]
        for m in method:
            if tbl.pop(m, None) is not None:
                ctx.count('removed_method')


def probe_undecodable(ctx, w, rule_paths, verbs, wit_fn):
    """The path of a route followed by bytes that are not UTF-8 (a lone Latin-1 byte, a multi-byte sequence cut short at the very end):
    that is no path of any route - neither a handler nor a 405 with the route's methods, but the framework's 400."""
    for rule, path in rule_paths:
        if rule is None:
            continue
        for tail in ('\xe9', '\xc3', '\xf0\x9f\x98', '\xe2\x82', 'x\xc3'):
            for verb in verbs:
                del w.calls[:]
                r = call_app(w.app, make_environ(verb, '/x', raw_path=path + tail))
                ctx.count('paths_ending_in_a_truncated_utf8_sequence')
                if r.escaped is not None or r.problems or r.code != 400 or w.calls:
                    ctx.violation(f'undecodable-path-answered-{r.code}', f'{verb} {path!r}+{tail!r} with table {w.tables.get(rule)}: {r.status} handlers {w.calls} Allow {r.header("Allow")}',
                                  wit_fn(verb, path + tail))
                    return


def probe(ctx, w, rule_paths, verbs, wit_fn, sample=False):
    """rule_paths: list of (rule or None, path).  Checks every verb on every path."""
    app = w.app
    for rule, path in rule_paths:
        tbl = w.tables.get(rule) if rule else None
        for verb in verbs:
            del w.calls[:]
            r = call_app(app, make_environ(verb, path))
            where = f'{verb} {path} with table {tbl}'
            wit = wit_fn(verb, path)
            nontriv = False
            if r.escaped is not None or r.problems:
                ctx.violation('wsgi-contract-broken', f'{where}: {r.escaped!r} {r.problems}', wit)
                continue
            if tbl is None:
                ctx.count('status_404')
                if r.code != 404:
                    ctx.violation(f'path-matching-no-route-answered-{r.code}', where, wit)
                if w.calls:
                    ctx.violation('handler-ran-for-unrouted-path', f'{where}: {w.calls}', wit)
                ctx.case((None, verb, path), nontrivial=False)
                continue
            exp = expected(tbl, verb)
            if verb != verb.upper():
                ctx.count('lowercase_request_verb')
                nontriv = True
            if exp[0] == 'handler':
                ctx.count(exp[2])
                nontriv = nontriv or exp[2] != 'own_verb'
                if r.code != 200 or w.calls != [exp[1]]:
                    if r.code == 405:
                        sig = f'405-although-{exp[2]}-applies'
                    elif r.code == 404:
                        sig = '404-for-a-path-that-matches-a-route'
                    elif w.calls and w.calls != [exp[1]]:
                        sig = f'wrong-handler-ran:expected-via-{exp[2]}'
                    else:
                        sig = f'unexpected-status-{r.code}'
                    ctx.violation(sig, f'{where}: expected handler {exp[1]} via {exp[2]}, got {r.status} handlers {w.calls}', wit)
                else:
                    if verb.upper() == 'HEAD':
                        ctx.count('head_no_body')
                        if r.body:
                            ctx.violation('head-response-carries-a-body', f'{where}: {r.body!r}', wit)
                    elif r.body != ('body-of-' + exp[1]).encode():
                        ctx.violation('wrong-body', f'{where}: {r.body!r}', wit)
            else:
                nontriv = True
                ctx.count('status_405')
                if not tbl:
                    ctx.count('empty_table_405')
                if r.code != 405:
                    sig = '404-for-a-path-that-matches-a-route' if r.code == 404 else f'{r.code}-instead-of-405'
                    ctx.violation(sig, f'{where}: got {r.status}, handlers {w.calls}', wit)
                else:
                    ctx.count('allow_compared')
                    allow = r.header_all('Allow')
                    if allow != [exp[1]]:
                        ctx.violation('allow-header-differs-from-registered-methods', f'{where}: Allow {allow} expected {exp[1]!r}', wit)
                    if w.calls:
                        ctx.violation('handler-ran-on-405', f'{where}: {w.calls}', wit)
            # the same verb arriving through a before_request hook that replaces REQUEST_METHOD: dispatch is by the verb as it is then
            if (len(path) + len(verb)) % 3 == 0:
                calls1, how = list(w.calls), ('read,item', 'item', 'read,environ', 'environ')[(len(path) + len(tbl)) % 4]
                del w.calls[:]
                r2 = call_app(app, make_environ('POST', path, headers={'X-HTTP-Method-Override': verb, 'X-Override-How': how}))
                ctx.count('verb_replaced_by_a_before_request_hook')
                if (r2.code, list(w.calls), r2.header_all('Allow'), r2.body) != (r.code, calls1, r.header_all('Allow'), r.body):
                    ctx.violation('dispatch-ignores-the-verb-set-by-a-before_request-hook', f'{where}: sent as POST and replaced by the hook ({how}): {r2.status} handlers {w.calls} '
                                  f'Allow {r2.header_all("Allow")}; sent directly: {r.status} handlers {calls1} Allow {r.header_all("Allow")}', wit)
            # the same question asked of the router directly
            ctx.count('resolve_compared')
            v = verb.upper()
            methods = [v, 'GET', 'ANY'] if v == 'HEAD' else [v, 'ANY']
            if (len(path) + len(verb) + len(tbl)) % 2:
                methods = tuple(methods)        # any sequence of names is a candidate list
                ctx.count('candidates_given_as_a_tuple')
            ep, err = app.router.resolve(path, methods)
            if exp[0] == 'handler':
                if err or ep[0].handler.__name__ != exp[1]:
                    ctx.violation('resolve-disagrees-with-reference', f'{where}: resolve -> {ep and ep[0]} {err}', wit)
            else:
                if not err or err[0] != 405 or err[2] != exp[1]:
                    ctx.violation('resolve-disagrees-with-reference', f'{where}: resolve -> {ep} {err}', wit)
            # longer candidate lists: names nobody registered in between change nothing (the first registered candidate wins)
            k = (len(path) + len(tbl)) % 4
            long = []
            for i, mname in enumerate(methods):
                long.append(mname)
                long += ['X-NOBODY-%d' % j for j in range(i * 3, i * 3 + k)]
            ctx.count('candidate_lists_of_four_and_more_names' if len(long) >= 4 else 'candidate_lists_short')
            ep, err = app.router.resolve(path, long)
            if exp[0] == 'handler':
                if err or ep[0].handler.__name__ != exp[1]:
                    ctx.violation('resolve-disagrees-with-reference', f'{where}: resolve with candidates {long} -> {ep and ep[0]} {err}', wit)
            else:
                if not err or err[0] != 405 or err[2] != exp[1]:
                    ctx.violation('resolve-disagrees-with-reference', f'{where}: resolve with candidates {long} -> {ep} {err}', wit)
            ctx.case((tuple(sorted(tbl.items())), verb, path), nontrivial=nontriv)
            if sample and len(ctx.samples) < 6 and nontriv and ctx.rng.random() < 0.1:
                ctx.sample({'table': tbl, 'request': f'{verb} {path}', 'status': r.status, 'Allow': r.header('Allow'), 'handler_ran': list(w.calls)})


R1, R2 = '/r1', '/w/<x>'
PATHS = [(R1, '/r1'), (R2, '/w/val'), (None, '/nothing'), (None, '/hookonly')]


def exh_unit(ctx, unit):
    subsets = [tuple(m for k, m in enumerate(METHODS) if bits >> k & 1) for bits in range(32)]
    for s1 in unit['s1']:
        for s2 in (range(32) if unit['two'] else [0]):
            w = World()
            for rule, sub in ((R1, subsets[s1]), (R2, subsets[s2])):
                if not sub:
                    continue
                # alternate the registration style: one call per method / one list / lower case
                style = (s1 + s2) % 3
                if style == 0:
                    for m in sub:
                        w.register(ctx, rule, m)
                elif style == 1:
                    w.register(ctx, rule, list(sub))
                else:
                    ctx.count('lowercase_registration')
                    w.register(ctx, rule, [m.lower() for m in sub])
            paths = [(r if w.tables.get(r) else None, p) for r, p in PATHS]
            probe(ctx, w, paths, VERBS, lambda verb, path: {'unit': {'kind': 'exh1', 's1': s1, 's2': s2, 'verb': verb, 'path': path}},
                  sample=(s1 % 7 == 3))
            if (s1 + s2) % 4 == 0:
                probe_undecodable(ctx, w, paths, ['GET', 'POST', 'HEAD'], lambda verb, path: {'unit': {'kind': 'note', 's1': s1, 's2': s2, 'verb': verb, 'raw_path': path}})


OPS_RULES = ['/r1', '/w/<x>', '/r1/sub', '/w/<x>/tail']
OPS_PATHS = [('/r1', '/r1'), ('/w/<x>', '/w/v'), ('/r1/sub', '/r1/sub'), ('/w/<x>/tail', '/w/v/tail'), (None, '/zzz'), (None, '/hookonly')]


UNCANON = {v: k for k, v in CANON.items()}


def pair_unit(ctx, unit):
    """Every ordered pair (a, b) of method names on one route beside GET: remove a (three ways) or re-register a with
    overwrite=True (same rule text / the rule spelled with another wildcard name); b and GET must be untouched."""
    names = METHODS[1:] + EXT
    for a in names:
        for b in names:
            if a == b:
                continue
            for how in ('remove_str', 'remove_list', 'remove_obj', 'overwrite', 'overwrite_respelled', 'add_respelled'):
                w = World()
                rule = '/w/<x>'
                w.register(ctx, rule, 'GET')
                w.register(ctx, rule, [a, b] if how != 'add_respelled' else a)
                if how == 'remove_str':
                    w.remove_method(ctx, rule, a)
                elif how == 'remove_list':
                    w.remove_method(ctx, rule, [a])
                elif how == 'remove_obj':
                    w.remove_method(ctx, rule, a, via_object=True)
                elif how == 'overwrite':
                    w.register(ctx, rule, a, overwrite=True)
                elif how == 'overwrite_respelled':
                    w.register(ctx, '/w/<y>', a, overwrite=True)
                else:
                    w.register(ctx, '/w/<y>', b)
                probe(ctx, w, [(rule, '/w/v'), (None, '/w')], ['GET', 'HEAD', a, b, a.lower(), 'BREW'],
                      lambda verb, path: {'unit': {'kind': 'pair1', 'a': a, 'b': b, 'how': how, 'verb': verb, 'path': path}})


def seq_unit(ctx, unit):
    rng = ctx.rng
    for si in range(unit['n']):
        w = World()
        hist = []
        for step in range(rng.randint(3, 14)):
            rule = rng.choice(OPS_RULES)
            if rule in UNCANON and rng.random() < 0.3:
                rule = UNCANON[rule]
            op = rng.choice(['add', 'add', 'add_list', 'add_lower', 'dup', 'overwrite', 'remove', 'remove_obj', 'remove_list', 'shortcut', 'remove_route'])
            if op == 'add':
                m = rng.choice(METHODS + EXT)
                w.register(ctx, rule, m)
                hist.append((op, rule, m))
            elif op == 'add_list':
                ms = rng.sample(METHODS, rng.randint(1, 3))
                w.register(ctx, rule, ms)
                hist.append((op, rule, ms))
            elif op == 'add_lower':
                m = rng.choice(['get', 'Post', 'any', 'hEAD', 'put'])
                ctx.count('lowercase_registration')
                w.register(ctx, rule, m)
                hist.append((op, rule, m))
            elif op == 'dup':
                t = w.tables.get(rule)
                if t:
                    m = rng.choice(sorted(t))
                    extra = rng.choice([[], ['OPTIONS']])
                    before = dict(t)
                    w.register(ctx, rule, [*extra, m] if extra else m)
                    hist.append((op, rule, [*extra, m]))
                    if w.tables[rule] != before:
                        ctx.violation('harness-model-changed-on-rejected-add', str(hist), None)
            elif op == 'overwrite':
                m = rng.choice(METHODS + EXT[:3])
                w.register(ctx, rule, m, overwrite=True)
                hist.append((op, rule, m))
            elif op == 'remove_route':
                # the whole route goes; a later registration of the same rule starts from an empty table
                crule = CANON.get(rule, rule)
                if crule in w.tables:
                    how = len(hist) % 3
                    if how == 0:
                        w.app.remove_route(rule)
                    elif how == 1:
                        w.app.remove_route(route_pattern=w.app.router[{rule}].pattern)
                    else:
                        w.app.router.remove(w.app.router[{rule}])
                    del w.tables[crule]
                    ctx.count('whole_route_removed_then_possibly_registered_again')
                    hist.append((op, rule, how))
            elif op in ('remove', 'remove_obj', 'remove_list'):
                t = w.tables.get(rule)
                if t is not None and len(hist) % 5 == 0:
                    # an empty selection of names (a filter that selected nothing) removes nothing
                    w.app.router[{rule}].remove_method(([], (), set())[len(hist) % 3])
                    ctx.count('removal_of_an_empty_selection_of_names')
                    hist.append(('remove_nothing', rule, []))
                if t is not None:
                    if op == 'remove_list':
                        ms = rng.sample(METHODS + EXT, 2)
                        w.remove_method(ctx, rule, ms)
                        hist.append((op, rule, ms))
                    else:
                        m = rng.choice(sorted(t)) if t and rng.random() < 0.6 else rng.choice(METHODS + EXT)
                        w.remove_method(ctx, rule, m, via_object=(op == 'remove_obj'))
                        hist.append((op, rule, m))
            else:
                m = rng.choice(['GET', 'POST', 'PUT', 'HEAD', 'DELETE', 'PATCH', 'OPTIONS'])
                w.register(ctx, rule, m, via='shortcut')
                hist.append((op, rule, m))
            if step % 3 == 2:
                paths = [(r if r in w.tables else None, p) for r, p in OPS_PATHS]
                probe(ctx, w, paths, rng.sample(VERBS + EXT, 5), lambda verb, path: {'unit': {'kind': 'note', 'history': hist[:], 'verb': verb, 'path': path}})
        paths = [(r if r in w.tables else None, p) for r, p in OPS_PATHS]
        probe(ctx, w, paths, VERBS + EXT, lambda verb, path: {'unit': {'kind': 'note', 'history': hist[:], 'verb': verb, 'path': path}}, sample=(si % 50 == 0))
        if si % 100 == 0:
            ctx.sample({'operation_history': hist, 'final_tables': w.tables})


def plan(tier, seed):
    if tier == 'quick':
        return [{'kind': 'exh', 's1': list(range(32)), 'two': False}, {'kind': 'pair'}] + [{'kind': 'seq', 'n': 120, 'sub': i} for i in range(6)]
    return [{'kind': 'exh', 's1': [i], 'two': True} for i in range(32)] + [{'kind': 'pair'}] + [{'kind': 'seq', 'n': 1500, 'sub': i} for i in range(16)]


def run_unit(ctx, unit):
    k = unit['kind']
    if k == 'exh':
        exh_unit(ctx, unit)
    elif k == 'seq':
        seq_unit(ctx, unit)
    elif k in ('pair', 'pair1'):
        pair_unit(ctx, unit)
    elif k == 'exh1':
        exh_unit(ctx, {'s1': [unit['s1']], 'two': True})
    else:
        print('  witness:', unit)
