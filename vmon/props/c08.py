"""C08 - concurrent requests on one application never see each other.

Controlled-scheduler monitor (vmon.sched): 2..3 real threads serve requests through the same
application; a sys.monitoring LINE callback serialises them and preempts exactly where the
schedule says, at statement granularity inside ombott/ and the handler code below.  Oracle
(metamorphic): each thread's complete response - which also echoes everything the handler
read from app.request, twice, with statements in between - equals the response the same
request yields when it is served alone.  Every request carries its own marker in path, query,
header, cookie and body, so a foreign value names its owner.
"""
import os
import itertools
from vmon.wsgi import make_environ, call_app, RecStream
from vmon.sched import Scheduler, INF, Deadlock
from vmon.probes import OMBOTT_DIR

RULE = ('request/handler kinds {echo (reads path, query, header, cookie; sets cookie, headers, status), post (reads body and forms), raised response, '
        'abort, crash (500 page), 404, 405, oversized body (shared 413 object), redirect, lazy generator body, multipart upload (forms, files, fragmented stream), JSON body with signed cookies, chunked body read byte-wise}, application-wide before/after hooks and a route hook that read and write the shared objects, x ordered pairs of kinds x schedules: '
        'all schedules with at most one preemption (quick) / at most two preemptions (thorough, for the listed pairs) at every statement of '
        'ombott/ and the handlers, plus seeded random multi-preemption schedules for 2 and 3 threads (each thread serving 1-2 requests). '
        'Non-trivial = at least one context switch happened while both threads were inside the framework; distinct = distinct (kinds, schedule).')
PYOPT = {'quick': 1, 'thorough': 1}     # one unit of every kind is also served by an interpreter started with -O (assert statements compiled out)
REQUIRED = ['units_run_under_python_-O', 'scheduled_runs', 'context_switches', 'responses_compared', 'one_preemption_runs', 'random_schedule_runs', 'three_thread_runs',
            'distinct_preemption_points', 'preempted_inside_handler', 'preempted_inside_framework']
EXHAUSTIVE = {'quick': False, 'thorough': False,
              'quick_note': 'for the listed kind pairs every schedule with at most one preemption is enumerated',
              'thorough_note': 'for the listed kind pairs every schedule with at most one preemption, and for 12 ordered pairs every schedule with at most two preemptions (stride 1), is enumerated'}
ASSUMPTIONS = ['statements inside the standard library are not preemption points; interleavings inside one statement are not explored',
               'every thread is a fresh thread or a worker serving requests one after another; the application object is the module default app (redirect needs it)']

KINDS = ['echo', 'post', 'raise_resp', 'abort', 'crash', 'nf', 'na', 'big', 'redirect', 'gen', 'multipart', 'json', 'chunked', 'noname_json',
         'chunked_form', 'echo10', 'redirect10', 'session', 'static', 'static_denied', 'logout', 'relogin', 'bigfile', 'extattr', 'static_range', 'badpath_tail', 'prepared', 'meta_post', 'session2', 'nonascii']
_APP = {}


# kinds whose whole answer is text around the request's marker (no signatures or lengths derived from it)
MARKER_ONLY_KINDS = ('extattr', 'bigfile', 'logout', 'relogin', 'echo', 'echo10', 'redirect', 'redirect10', 'nf', 'na', 'abort', 'raise_resp', 'gen', 'crash', 'static', 'static_denied')
OWN_TEXT = {'echo': lambda m: 'http://' + m + '.example/echo/', 'echo10': lambda m: 'http://' + m + '.example:8080/echo/', 'redirect': lambda m: 'http://' + m + '.example/to/',
            'redirect10': lambda m: 'http://' + m + '.example/to/'}
_STATIC = {}


def static_root():
    """<base>/www is the served root; <base>/secret-<marker>.txt lie above it"""
    if 'base' not in _STATIC:
        import atexit
        import shutil
        import tempfile
        base = tempfile.mkdtemp(prefix='vmon-c08-', dir='/dev/shm' if os.path.isdir('/dev/shm') else None)
        os.mkdir(os.path.join(base, 'www'))
        atexit.register(shutil.rmtree, base, True)
        _STATIC['base'] = base
    return _STATIC['base']


def static_files_for(m):
    base = static_root()
    for p, content in ((os.path.join(base, 'www', 'ok-' + m + '.txt'), ('public file of ' + m + ' ') * 3), (os.path.join(base, 'secret-' + m + '.txt'), 'SECRET above the root, ' + m),
                       (os.path.join(base, 'www', 'big-' + m + '.bin'), (m + '#') * (40000 // (len(m) + 1)))):
        if not os.path.exists(p):
            with open(p, 'w') as f:
                f.write(content)


def get_app():
    if 'app' in _APP:
        return _APP['app']
    import ombott
    from ombott import HTTPResponse
    app = ombott.default_app()
    for r in list(app.router.routes.values()):
        app.router.remove(r)
    app.setup({'max_body_size': 900, 'max_memfile_size': 400})
    rq = app.request
    rs = app.response

    def echo():
        a1 = rq.path
        a2 = rq.query_string
        a3 = rq.headers.get('X-M')
        a4 = rq.get_cookie('c')
        rs.set_cookie('seen', a2)
        rs.headers['X-Echo'] = a3
        rs.status = 201
        b1 = rq.path
        b2 = rq.query.get('m')
        b3 = rq.environ.get('HTTP_X_M')
        b4 = rq.cookies.get('c')
        rs.headers.append('X-Multi', b2)
        rs.content_type = 'text/x-' + b2
        c1 = rq.route.route.rule
        c2 = sorted(rq.url_args.items())
        c3 = rq.app is app
        c4 = rq.url
        # a request without a body has no form fields, whoever else is posting forms at the moment
        d1 = (rq.forms.get('b'), rq.params.get('b'), len(rq.POST), len(rq.files))
        return '|'.join(map(str, (a1, a2, a3, a4, b1, b2, b3, b4, rs.status_code, rs.headers.get('X-Echo'), c1, c2, c3, c4, d1)))

    def post():
        a1 = rq.body.read()
        a2 = rq.forms.get('b')
        a3 = rq.content_length
        rs.headers['X-Len'] = a3
        b1 = rq.body.read()
        b2 = rq.params.get('b')
        return '|'.join(map(str, (a1, a2, a3, b1, b2, rq.path)))

    def raise_resp():
        m = rq.query.get('m')
        rs.headers['X-Lost'] = 'x'
        r = HTTPResponse('raised ' + m, 202, {'X-Raised': m})
        r.set_cookie('r', m)
        raise r

    def abort_():
        m = rq.query.get('m')
        rs.set_cookie('before', m)
        ombott.abort(418, 'teapot ' + m + rq.path)

    def crash():
        m = rq.query.get('m')
        rs.headers['X-Crash'] = m
        raise RuntimeError('boom ' + m)

    def big():
        return 'len=%d' % len(rq.body.read())

    def redirect_():
        m = rq.query.get('m')
        ombott.redirect('/to/' + m)

    def gen():
        def g():
            yield 'g1:' + rq.query.get('m')
            yield '|g2:' + rq.path
            yield '|g3:' + rq.headers.get('X-M', '') + str(rs.status_code) + rq.route.route.rule + str(rq.url_args)
        rs.status = 203
        return g()

    def multipart():
        f = rq.forms.get('t')
        u = rq.files.get('up')
        data = u.file.read() if u is not None else b''
        rs.headers['X-Upload'] = getattr(u, 'raw_filename', '-')
        again = rq.POST.get('t')
        ct = getattr(u, 'content_type', None)
        cd = u.headers.get('Content-Disposition') if u is not None else None
        return '|'.join(map(str, (f, again, data, rq.content_type[:19], rq.query_string, getattr(ct, 'value', ct), getattr(cd, 'options', cd))))

    def json_():
        j = rq.json
        rs.set_cookie('j', str(j.get('m')), secret='k')
        return '|'.join(map(str, (j, rq.get_cookie('sj', secret='k'), rq.query.get('m'))))

    def session():
        # read the signed session value, change it in place, sign it again (every client sends the same cookie bytes)
        sess = rq.get_cookie('sess', secret='k') or {'n': 0, 'log': []}
        sess['n'] += 1
        sess['log'].append(rq.query.get('m'))
        rs.set_cookie('sess', sess, secret='k')
        return 'session=%r' % (sess,)

    _prepared = {}

    def prepared():
        # one answer prepared at start-up; every request sends a copy of it with a session cookie of its own
        if 'r' not in _prepared:
            _prepared['r'] = HTTPResponse('see you', 200, {'X-Prepared': 'yes'})
            _prepared['r'].set_cookie('sid', 'anonymous', path='/')
        m = rq.query.get('m')
        mine = _prepared['r'].copy(cls=HTTPResponse)
        mine.set_cookie('sid', 'session-of-' + m, path='/')
        mine.headers['X-Prepared'] = 'for ' + m
        mine.body = 'see you, ' + m
        return mine

    def session2():
        # another part of the site signs with a secret of its own
        sess = rq.get_cookie('sess2', secret='another secret, ' * 3) or {'n': 0, 'log': []}
        sess['n'] += 1
        sess['log'].append(rq.query.get('m'))
        rs.set_cookie('sess2', sess, secret='another secret, ' * 3)
        rs.set_cookie('plain', 'p-' + rq.query.get('m'))
        return 'session2=%r' % (sess,)

    def nonascii():
        # header values and a cookie outside ASCII (and outside Latin-1)
        m = rq.query.get('m')
        rs.headers['X-Name'] = 'Zoë Łukasz ' + m
        rs.headers.append('X-Name', 'café ' + m)
        rs.set_cookie('who', 'zoë-' + m)
        rs.content_type = 'text/plain; charset=utf-8; name=日本-' + m
        return 'héllo ' + m

    def bigfile():
        # a file-like body of a few hundred KiB, streamed by the framework's own file wrapper (the server offers none)
        import io
        m = rq.query.get('m')
        return io.BytesIO((m + '|').encode() * (200000 // (len(m) + 1)))

    def extattr():
        # application-defined request attributes (stored by the framework in the environ of that request)
        m = rq.query.get('m')
        rq.who = 'user-' + m
        # a lazily computed attribute: a descriptor stored on the request is evaluated for the request that reads it
        rq.lazy = property(lambda req: 'lazy-' + req.query.get('m') + '-' + req.path)
        rq.cart = []
        rq.cart.append(rq.path)
        rq.cart.append(rq.who)
        # ... and the request as a mapping over its environ, the client address, the authentication pair
        return 'who=%s lazy=%s/%s cart=%r keys=%r map=%r addr=%r route=%r auth=%r' % (
            rq.who, rq.lazy, rq.lazy, rq.cart, sorted(k for k in rq.environ if k.startswith('ombott.request.ext.')),
            (rq['QUERY_STRING'], rq.get('HTTP_X_M'), len(rq) == len(rq.environ), sorted(k for k in rq.keys() if k.startswith('HTTP_X_')), 'PATH_INFO' in list(rq)),
            rq.remote_addr, rq.remote_route, rq.auth)

    def logout():
        rs.delete_cookie('sid', path='/')
        return 'bye ' + rq.query.get('m')

    def relogin():
        rs.delete_cookie('sid', path='/')
        rs.set_cookie('sid', 'token-of-' + rq.query.get('m'), path='/', httponly=True)
        return 'welcome back ' + rq.query.get('m')

    # application-wide hooks read and write the shared objects too
    app.add_hook('before_request', lambda: rs.headers.__setitem__('X-Hook-Before', rq.query_string + '@' + rq.path))
    app.add_hook('after_request', lambda: rs.headers.__setitem__('X-Hook-After', rq.method + ' ' + rq.path + '?' + rq.query_string) if rs._headers is not None else None)
    app.on_route('/echo', lambda prefix: rs.headers.__setitem__('X-Route-Hook', prefix + '|' + rq.query_string))

    from ombott.static_stream import static_file
    www = os.path.join(static_root(), 'www')
    app.route('/static/<name:path>', 'GET', lambda name: static_file(name, root=www))
    app.route('/session', 'GET', session)
    app.route('/logout', 'GET', logout)
    def meta_post():
        return 'meta len=%d meta=%r' % (len(rq.body.read()), rq.route.meta)

    # a route registered through the router with user data of its own attached (inert for the framework)
    app.router.add('/meta', 'POST', meta_post, meta={'max_body_size': 100000, 'max_memfile_size': 100000})
    # an application page for refused uploads (the refusal itself is an error object the framework keeps for all requests)
    app.error(413)(lambda err: 'custom page: upload refused for %s (%s)' % (rq.query.get('m'), err.status_line))
    app.route('/bigfile', 'GET', bigfile)
    app.route('/prepared', 'GET', prepared)
    app.route('/session2', 'GET', session2)
    app.route('/nonascii', 'GET', nonascii)
    app.route('/extattr', 'GET', extattr)
    app.route('/relogin', 'GET', relogin)
    app.route('/mp', 'POST', multipart)
    app.route('/json', 'POST', json_)
    app.route('/echo/<x>', 'GET', lambda x: echo() + '|' + x)
    app.route('/post', 'POST', post)
    app.route('/raise', 'GET', raise_resp)
    app.route('/abort/<x>', 'GET', lambda x: abort_())
    app.route('/crash', 'GET', crash)
    app.route('/big', 'POST', big)
    app.route('/redirect', 'GET', redirect_)
    app.route('/gen/<x>', 'GET', lambda x: gen())
    _APP['app'] = app
    return app


def make_env(kind, m):
    if kind == 'echo':
        return make_environ('GET', '/echo/' + m, qs='m=' + m, headers={'X-M': m, 'Cookie': 'c=' + m, 'Host': m + '.example'})
    if kind == 'post':
        body = ('b=' + m + '&pad=' + 'p' * 40).encode()
        return make_environ('POST', '/post', body=body, content_type='application/x-www-form-urlencoded', stream=RecStream(body, 'one'), headers={'X-M': m})
    if kind == 'raise_resp':
        return make_environ('GET', '/raise', qs='m=' + m)
    if kind == 'abort':
        return make_environ('GET', '/abort/' + m, qs='m=' + m)
    if kind == 'crash':
        return make_environ('GET', '/crash', qs='m=' + m, headers={'Host': m + '.example'})
    if kind == 'nf':
        return make_environ('GET', '/nf/' + m, qs='q=' + m)
    if kind == 'na':
        return make_environ('DELETE', '/echo/' + m, qs='q=' + m)
    if kind == 'big':
        return make_environ('POST', '/big', body=(m * 400).encode(), qs='m=' + m)
    if kind == 'redirect':
        return make_environ('GET', '/redirect', qs='m=' + m, headers={'Host': m + '.example'})
    if kind == 'multipart':
        body = ('--B\r\nContent-Disposition: form-data; name="t"\r\n\r\ntext-' + m + '\r\n--B\r\nContent-Disposition: form-data; name="up"; filename="' + m
                + '.bin"\r\nContent-Type: image/x-' + m + '\r\n\r\nDATA-' + m * 30 + '\r\n--B--\r\n').encode()
        return make_environ('POST', '/mp', qs='m=' + m, body=body, content_type='multipart/form-data; boundary=B', stream=RecStream(body, ('list', [40, 40, 40])))
    if kind == 'json':
        from ombott.common_helpers import cookie_encode
        body = ('{"m": "' + m + '", "l": [1, 2, 3]}').encode()
        sj = cookie_encode(('sj', {'who': m}), 'k').decode()
        return make_environ('POST', '/json', qs='m=' + m, body=body, content_type='application/json', headers={'Cookie': 'sj="' + sj + '"'})
    if kind == 'noname_json':
        # a request error that carries a message of its own (it quotes the part headers), shown to a JSON client
        body = ('--B\r\nContent-Disposition: form-data; filename="secret-' + m + '.pdf"\r\n\r\nx\r\n--B--\r\n').encode()
        return make_environ('POST', '/mp', qs='m=' + m, body=body, content_type='multipart/form-data; boundary=B', headers={'Accept': 'application/json'})
    if kind == 'chunked':
        # several chunks with multi-digit sizes and an extension; the stream answers reads one byte at a time
        parts = [('c-' + m) * 3, 'x' * 17, m]
        raw = b''.join(b'%x%s\r\n%s\r\n' % (len(p), b';e=1' if i == 1 else b'', p.encode()) for i, p in enumerate(parts)) + b'0\r\n\r\n'
        return make_environ('POST', '/post', qs='m=' + m, stream=RecStream(raw, 'one'), content_length=None, chunked=True,
                            content_type='text/plain', headers={'X-M': m})
    if kind == 'chunked_form':
        # a urlencoded form under chunked transfer framing (no Content-Length at all)
        body = ('b=' + m + '&pad=' + 'p' * 30).encode()
        raw = b'%x\r\n%s\r\n%x\r\n%s\r\n0\r\n\r\n' % (7, body[:7], len(body) - 7, body[7:])
        return make_environ('POST', '/post', qs='m=' + m, stream=RecStream(raw, ('list', [3, 9, 40])), content_length=None, chunked=True,
                            content_type='application/x-www-form-urlencoded', headers={'X-M': m})
    if kind == 'echo10':
        # a client that sends no Host header: the URL is built from SERVER_NAME / SERVER_PORT, which differ per request (virtual hosts)
        return make_environ('GET', '/echo/' + m, qs='m=' + m, headers={'X-M': m, 'Cookie': 'c=' + m, 'Host': m + '.example:8080'}, flavour='http10')
    if kind == 'redirect10':
        return make_environ('GET', '/redirect', qs='m=' + m, headers={'Host': m + '.example'}, flavour='http10')
    if kind == 'extattr':
        import base64
        return make_environ('GET', '/extattr', qs='m=' + m, headers={'X-M': m, 'X-Forwarded-For': 'client-%s, proxy-%s' % (m, m),
                                                                     'Authorization': 'Basic ' + base64.b64encode(('user-%s:pw-%s' % (m, m)).encode()).decode()},
                            extra={'REMOTE_ADDR': 'addr-' + m, 'REMOTE_USER': 'ruser-' + m})
    if kind == 'meta_post':
        return make_environ('POST', '/meta', body=(m + ';') .encode() * (300 // (len(m) + 1)), qs='m=' + m)
    if kind == 'badpath_tail':
        # a path cut inside a UTF-8 sequence at its very end: 400 for this request, nothing for anybody else
        return make_environ('GET', '/x', raw_path='/echo/' + m + ('\xc3' if len(m) % 2 else '\xe6\x97'), qs='m=' + m, headers={'X-M': m})
    if kind == 'session2':
        from ombott.common_helpers import cookie_encode
        return make_environ('GET', '/session2', qs='m=' + m, headers={'Cookie': 'sess2="' + cookie_encode(('sess2', {'n': 7, 'log': ['s2']}), 'another secret, ' * 3).decode() + '"'})
    if kind in ('logout', 'relogin', 'bigfile', 'prepared', 'nonascii'):
        return make_environ('GET', '/' + kind, qs='m=' + m)
    if kind == 'static_range':
        # a slice out of the middle of a file of the request's own, streamed by the framework in pieces
        static_files_for(m)
        return make_environ('GET', '/static/big-' + m + '.bin', qs='m=' + m, headers={'Range': 'bytes=%d-%d' % (len(m) + 3, 30000 + len(m))})
    if kind in ('static', 'static_denied'):
        static_files_for(m)
        return make_environ('GET', '/static/ok-' + m + '.txt' if kind == 'static' else '/static/../secret-' + m + '.txt', qs='m=' + m)
    if kind == 'session':
        from ombott.common_helpers import cookie_encode
        return make_environ('GET', '/session', qs='m=' + m, headers={'Cookie': 'sess="' + cookie_encode(('sess', {'n': 1, 'log': ['start']}), 'k').decode() + '"'})
    if kind == 'gen':
        return make_environ('GET', '/gen/' + m, qs='m=' + m, headers={'X-M': m})
    raise ValueError(kind)


def key(r):
    return (r.status, tuple(sorted(r.headers or ())), r.body, r.sr_calls, repr(r.escaped) if r.escaped is not None else None, tuple(r.problems))


def job(app, reqs):
    """A thread's work: serve the requests one after another.  -> list of response keys"""
    def run():
        out = []
        for kind, m in reqs:
            out.append(key(call_app(app, make_env(kind, m))))
        return out
    return run


class BaselineBroken(Exception):
    pass


class Lab:
    def __init__(self):
        self.app = get_app()
        self.sched = Scheduler(files=[os.path.abspath(__file__)], dirs=[OMBOTT_DIR]).install()
        self.solo = {}
        self.markers = {'warm'}
        self.norms = {}
        self.ctx = None
        self.points = set()
        # warm-up: lazily loaded templates and caches must not change the step counts between runs
        for k in KINDS:
            for _ in range(2):
                call_app(self.app, make_env(k, 'warm'))

    def close(self):
        self.sched.uninstall()

    def baseline(self, kind, m):
        k = (kind, m)
        if k not in self.solo:
            res, info = self.sched.run([job(self.app, [(kind, m)])], [])
            assert res[0][0] == 'ok', res
            status = res[0][1][0][0]
            expect_ok = kind in ('echo', 'post', 'raise_resp', 'gen', 'multipart', 'json', 'chunked', 'redirect', 'chunked_form', 'echo10', 'redirect10', 'session', 'static', 'logout', 'relogin', 'bigfile', 'extattr', 'static_range', 'prepared', 'meta_post', 'session2', 'nonascii')
            if expect_ok and not status.startswith(('2', '3')) and self.ctx is not None:
                # these requests succeed in a process that has served nothing else (every kind is run on the unchanged tree):
                # failing alone, after the earlier requests of this process, is itself dependence on other requests
                self.ctx.violation(f'request-served-alone-fails-after-the-earlier-requests-of-the-process:{kind}',
                                   f'{kind}/{m} served alone answers {status}: {res[0][1][0][2][:160]!r}', {'unit': {'kind': 'note', 'request': [kind, m]}})
                raise BaselineBroken(kind)
            if expect_ok and not status.startswith(('2', '3')):
                raise AssertionError(f'harness: kind {kind} is meant to succeed but answers {status} when served alone: {res[0][1][0][2][:200]!r}')
            # the reference itself must be clean: a request served alone cannot carry what earlier requests of this process brought
            got = res[0][1][0]
            earlier = [x for x in self.markers if x != m and x not in m and (x.encode() in got[2] or any(x in v for _, v in got[1]))]
            self.markers.add(m)
            if earlier and self.ctx is not None:
                self.ctx.violation(f'response-of-a-request-served-alone-carries-an-earlier-marker:{kind}',
                                   f'{kind} with marker {m} served alone after requests with markers {sorted(self.markers)}: carries {earlier}: {got[:3]}',
                                   {'unit': {'kind': 'note', 'request': [kind, m], 'earlier_markers': sorted(self.markers)}})
            # ... it shows the request's own address where the kind echoes it
            own = OWN_TEXT.get(kind)
            if own is not None and self.ctx is not None:
                text = own(m)
                if text.encode() not in got[2] and not any(text in hv for _, hv in got[1]):
                    self.ctx.violation(f'response-of-a-request-served-alone-lacks-its-own-address:{kind}', f'{kind} with marker {m}: {text!r} appears nowhere in {got[:3]}',
                                       {'unit': {'kind': 'note', 'request': [kind, m]}})
            # ... and a function of its own request: with the marker blanked out, the answers to two requests of one kind are the same text
            if kind in MARKER_ONLY_KINDS:
                norm = (got[0], tuple(sorted((hk, hv.replace(m, '@')) for hk, hv in got[1] if hk not in ('Content-Length', 'Last-Modified', 'Date'))), got[2].replace(m.encode(), b'@'))
                first = self.norms.setdefault(kind, (m, norm))
                if first[1] != norm and self.ctx is not None:
                    self.ctx.violation(f'response-of-a-request-served-alone-is-not-a-function-of-that-request:{kind}',
                                       f'{kind}: with the marker blanked out, the answer for {m} differs from the one for {first[0]}: {norm[:3]} vs {first[1][:3]}',
                                       {'unit': {'kind': 'note', 'request': [kind, m], 'compared_with_marker': first[0]}})
            self.solo[k] = (res[0][1][0], info['steps'][0])
        return self.solo[k]

    def run(self, ctx, thread_reqs, schedule, what, record=True):
        """thread_reqs: list (per thread) of lists of (kind, marker).  Compares every response with its solo baseline."""
        self.ctx = ctx
        expect = [[self.baseline(k, m)[0] for k, m in reqs] for reqs in thread_reqs]
        wit = {'unit': {'kind': 'one', 'threads': [[list(r) for r in reqs] for reqs in thread_reqs], 'schedule': [list(s) for s in schedule]}}
        try:
            res, info = self.sched.run([job(self.app, reqs) for reqs in thread_reqs], schedule, record_points=record)
        except Deadlock as e:
            ctx.set_inconclusive(str(e))
            return None
        ctx.count('scheduled_runs')
        ctx.count('context_switches', info['switches'])
        for p in info['points']:
            if p not in self.points:
                self.points.add(p)
                ctx.count('distinct_preemption_points')
                ctx.count('preempted_inside_handler' if p[0] == os.path.basename(__file__) else 'preempted_inside_framework')
        ok = True
        for t, (r, exp) in enumerate(zip(res, expect)):
            if r[0] != 'ok':
                ctx.violation(f'thread-failed:{type(r[1]).__name__}', f'{what}: thread {t} {thread_reqs[t]}: {r[1]!r}; schedule {schedule}', wit)
                ok = False
                continue
            for j, (got, e) in enumerate(zip(r[1], exp)):
                ctx.count('responses_compared')
                if got != e:
                    kind = thread_reqs[t][j][0]
                    others = [rq for tt, reqs in enumerate(thread_reqs) if tt != t for rq in reqs]
                    foreign = [m for _, m in others if m.encode() in got[2] or any(m in v for _, v in got[1])]
                    part = 'status' if got[0] != e[0] else ('headers' if got[1] != e[1] else ('body' if got[2] != e[2] else 'protocol'))
                    sig = f'response-differs-from-solo-run:{kind}:{part}' + (':foreign-marker' if foreign else '')
                    ctx.violation(sig, f'{what}: threads {thread_reqs} schedule {schedule}: thread {t} request {j} got {got[:3]} expected {e[:3]}', wit)
                    ok = False
        return info if ok else None


PAIRS_QUICK = [('echo', 'echo'), ('echo', 'post'), ('raise_resp', 'echo'), ('crash', 'abort'), ('big', 'big'), ('nf', 'redirect'), ('gen', 'echo'), ('na', 'post'),
               ('multipart', 'json'), ('json', 'echo'), ('chunked', 'chunked'), ('chunked', 'post'), ('noname_json', 'noname_json'), ('multipart', 'multipart'),
               ('chunked_form', 'chunked_form'), ('chunked_form', 'echo'), ('echo10', 'echo10'), ('redirect10', 'echo10'), ('session', 'session'), ('static', 'static_denied'), ('static', 'static'), ('logout', 'relogin'), ('relogin', 'relogin'), ('bigfile', 'bigfile'), ('gen', 'gen'), ('gen', 'bigfile'), ('extattr', 'extattr'), ('static_range', 'static_range'), ('static_range', 'static'), ('badpath_tail', 'echo'), ('badpath_tail', 'badpath_tail'), ('prepared', 'prepared'), ('meta_post', 'big'), ('meta_post', 'meta_post'), ('session', 'session2'), ('session2', 'session2'), ('nonascii', 'echo'), ('nonascii', 'nonascii')]


def one_preemption(ctx, lab, a, b, stride=1):
    ma, mb = 'AAA1', 'BBB2'
    lab.ctx = ctx
    na = lab.baseline(a, ma)[1]
    nb = lab.baseline(b, mb)[1]
    for k in range(0, na + 1, stride):
        sch = [(0, k), (1, INF), (0, INF)]
        info = lab.run(ctx, [[(a, ma)], [(b, mb)]], sch, f'one preemption of {a} after {k} steps by {b}')
        ctx.count('one_preemption_runs')
        ctx.case(None, nontrivial=0 < k < na)
    for k in range(0, nb + 1, stride):
        sch = [(1, k), (0, INF), (1, INF)]
        lab.run(ctx, [[(a, ma)], [(b, mb)]], sch, f'one preemption of {b} after {k} steps by {a}')
        ctx.count('one_preemption_runs')
        ctx.case(None, nontrivial=0 < k < nb)
    return na, nb


def two_preemptions(ctx, lab, a, b, stride, part, parts):
    ma, mb = 'AAA1', 'BBB2'
    lab.ctx = ctx
    na = lab.baseline(a, ma)[1]
    nb = lab.baseline(b, mb)[1]
    i = 0
    for k1 in range(1, na, stride):
        i += 1
        if i % parts != part:
            continue
        for k2 in range(1, nb, stride):
            sch = [(0, k1), (1, k2), (0, INF), (1, INF)]
            lab.run(ctx, [[(a, ma)], [(b, mb)]], sch, f'two preemptions {a}@{k1} {b}@{k2}', record=False)
            ctx.count('two_preemption_runs')
            ctx.case(None, nontrivial=True)
    return na, nb


def pair_unit(ctx, unit):
    lab = Lab()
    try:
        for a, b in unit['pairs']:
            try:
                na, nb = one_preemption(ctx, lab, a, b, unit.get('stride', 1))
            except BaselineBroken:
                continue
            ctx.sample({'pair': [a, b], 'statements_per_request': [na, nb], 'schedules': 'every k in 0..n: first thread runs k statements, the other runs to completion, the first resumes'})
    finally:
        lab.close()


def two_unit(ctx, unit):
    lab = Lab()
    try:
        a, b = unit['pair']
        try:
            na, nb = two_preemptions(ctx, lab, a, b, unit['stride'], unit['part'], unit['parts'])
        except BaselineBroken:
            return
        ctx.sample({'pair': [a, b], 'two_preemptions': f'k1 in 1..{na} (this shard: every {unit["parts"]}th), k2 in 1..{nb}, stride {unit["stride"]}'})
        # this unit records no switch points; reach counters come from the pair units
    finally:
        lab.close()


def random_unit(ctx, unit):
    rng = ctx.rng
    lab = Lab()
    try:
        for i in range(unit['n']):
            nt = 3 if rng.random() < 0.35 else 2
            thread_reqs = []
            for t in range(nt):
                reqs = [(rng.choice(KINDS), 'M%dx%d' % (t, j) + 'QZ'[t % 2] * 3) for j in range(rng.choice([1, 1, 2]))]
                thread_reqs.append(reqs)
            lab.ctx = ctx
            try:
                total = sum(lab.baseline(k, m)[1] for reqs in thread_reqs for k, m in reqs)
            except BaselineBroken:
                continue
            segs = []
            nseg = rng.randint(2, 14)
            for _ in range(nseg):
                segs.append((rng.randrange(nt), rng.choice([1, 2, 3, 5, 8, 13, 21, 40, 80, rng.randint(1, max(2, total // 2))])))
            info = lab.run(ctx, thread_reqs, segs, 'random schedule')
            ctx.count('random_schedule_runs')
            if nt == 3:
                ctx.count('three_thread_runs')
            ctx.case(('rand', tuple(map(tuple, thread_reqs)), tuple(segs)), nontrivial=True)
            if i % 200 == 0:
                ctx.sample({'threads': thread_reqs, 'schedule(thread,steps)': segs, 'switches': info['switches'] if info else None})
    finally:
        lab.close()


def plan(tier, seed):
    if tier == 'quick':
        return [{'kind': 'pairs', 'pairs': [p]} for p in PAIRS_QUICK] + [{'kind': 'random', 'n': 500, 'sub': i} for i in range(4)]
    allpairs = [(a, b) for a in KINDS for b in KINDS]
    units = [{'kind': 'pairs', 'pairs': allpairs[i::36]} for i in range(36)]
    two = [('echo', 'echo'), ('echo', 'post'), ('post', 'echo'), ('raise_resp', 'abort'), ('abort', 'crash'), ('crash', 'echo'), ('big', 'big'), ('big', 'post'),
           ('nf', 'na'), ('na', 'redirect'), ('redirect', 'gen'), ('gen', 'raise_resp')]
    for p in two:
        for part in range(4):
            units.append({'kind': 'two', 'pair': p, 'stride': 2, 'part': part, 'parts': 4})
    units += [{'kind': 'random', 'n': 3000, 'sub': i} for i in range(16)]
    return units


REQUIRED_BY_TIER = None


def run_unit(ctx, unit):
    k = unit['kind']
    if k == 'pairs':
        pair_unit(ctx, unit)
    elif k == 'two':
        two_unit(ctx, unit)
    elif k == 'random':
        random_unit(ctx, unit)
    else:
        lab = Lab()
        try:
            threads = [[tuple(r) for r in reqs] for reqs in unit['threads']]
            sch = [tuple(s) for s in unit['schedule']]
            lab.run(ctx, threads, sch, 'replay')
        finally:
            lab.close()
