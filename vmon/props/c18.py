"""C18 - query strings and urlencoded forms decode to exactly what was sent.

Round trip: (key, value) pairs --urllib.parse.quote_plus (independent encoder)--> query
string / urlencoded body --> Request.query / Request.forms / Request.params, compared
with an ordered multi-dict model of the sent pairs.  Totality: parse_qsl on every string
of a bounded alphabet/length (exhaustive) and on random junk returns without raising,
inside a logical step budget.
"""
import itertools
from urllib.parse import quote_plus, quote
from vmon.wsgi import make_environ, call_app, RecStream, chunk_encode
from vmon.probes import StepCounter, BudgetExceeded

RULE = ('roundtrip units: random lists of 0..8 (key,value) pairs, keys non-empty, over an alphabet heavy in = & + % space ; # '
        'non-ASCII and astral characters, repeated keys, empty values; encoded with quote_plus / quote(+%20) / mixed-case escapes; '
        'read through Request.query (GET), Request.forms (POST, Content-Length and chunked, fragmenting stream), Request.params and '
        'through a handler behind Ombott.__call__. totality units: every string of length<=N over {a,=,&,%,+,2} fed to parse_qsl in '
        'all three of its output modes under a step budget, plus random junk incl. lone surrogates-free Unicode. Non-trivial = '
        'the pair list has a repeated key or a character that needs escaping; distinct = distinct encoded string.')
PYOPT = {'quick': 1, 'thorough': 1}     # one unit of every kind is also served by an interpreter started with -O (assert statements compiled out)
REQUIRED = ['units_run_under_python_-O', 'fields_of_thousands_of_characters', 'same_request_repeated', 'params_read_before_query_and_forms', 'attribute_access_compared', 'query_replaced_after_a_first_read', 'body_consumed_before_forms', 'roundtrips_query', 'roundtrips_forms', 'roundtrips_params', 'repeated_key_cases', 'list_values_seen',
            'totality_strings', 'via_wsgi', 'chunked_forms']
EXHAUSTIVE = {'quick': False, 'thorough': False,
              'quick_note': 'totality sweep is complete for all strings of length<=6 over {a,=,&,%,+,2}',
              'thorough_note': 'totality sweep is complete for all strings of length<=8 over {a,=,&,%,+,2}'}
ASSUMPTIONS = ['keys are non-empty (the statement); a key sent both in the query and in the form is outside the params comparison',
               'the encoder is urllib.parse.quote_plus/quote, independent of the scanner under test']

ALPHA = ['Ã©', 'Â£', 'â\x82¬', 'Ã\x9f', 'Ã', 'Â', 'a', 'b', 'k', '=', '&', '+', '%', ' ', ';', '#', '?', '/', 'é', 'ß', '日', '\U0001f600', '1', '%41', '"', "'", '\n', '\x00', '\x7f', '.', '-', '_', '~', 'A']
TOT = 'a=&%+2'


def plan(tier, seed):
    if tier == 'quick':
        units = [{'kind': 'roundtrip', 'n': 500, 'sub': i} for i in range(8)]
        units += [{'kind': 'totality', 'maxlen': 6, 'first': c} for c in TOT]
        units += [{'kind': 'junk', 'n': 4000}]
        units += [{'kind': 'long', 'lengths': [2 ** k + d for k in ks for d in (-1, 0, 1, 7)] + [20000 + 1111 * ks[0]]} for ks in ((8, 12), (10, 13), (11, 14), (9, 15))]
    else:
        units = [{'kind': 'roundtrip', 'n': 6000, 'sub': i} for i in range(32)]
        units += [{'kind': 'totality', 'maxlen': 8, 'first': a + b} for a in TOT for b in TOT]
        units += [{'kind': 'totality', 'maxlen': 1, 'first': ''}]
        units += [{'kind': 'junk', 'n': 40000, 'sub': i} for i in range(8)]
        units += [{'kind': 'long', 'lengths': [2 ** k + d for d in range(-9, 10)] + [3 * 2 ** (k - 1) + d for d in (-1, 0, 1)] + [1000 * k + 17 * j for j in range(6)]} for k in range(7, 18)]
    return units


MEMFILE = [4096]      # a urlencoded form has to fit into the in-memory budget (the framework refuses larger ones: 413)


def model(pairs):
    """ordered multi-dict: first occurrence fixes the position; single -> str, repeated -> list in order"""
    out = {}
    for k, v in pairs:
        if k in out:
            cur = out[k]
            if isinstance(cur, list):
                cur.append(v)
            else:
                out[k] = [cur, v]
        else:
            out[k] = v
    return out


def encode(rng, pairs, style):
    parts = []
    for k, v in pairs:
        if style == 'plus':
            ek, ev = quote_plus(k), quote_plus(v)
        elif style == 'pct20':
            ek, ev = quote(k, safe=''), quote(v, safe='')
        else:   # 'lower': lower-case hex escapes
            ek, ev = quote_plus(k), quote_plus(v)
            import re
            low = lambda m: m.group(0).lower()
            ek, ev = re.sub(r'%[0-9A-F]{2}', low, ek), re.sub(r'%[0-9A-F]{2}', low, ev)
        parts.append(ek + '=' + ev)
    return '&'.join(parts)


def gen_pairs(rng):
    n = rng.choice([0, 1, 1, 2, 3, 4, 6, 8])
    keys = []
    pairs = []
    for _ in range(n):
        if keys and rng.random() < 0.35:
            k = rng.choice(keys)
        else:
            k = ''.join(rng.choice(ALPHA) for _ in range(rng.randint(1, 4)))
            keys.append(k)
        v = ''.join(rng.choice(ALPHA) for _ in range(rng.choice([0, 0, 1, 2, 3, 6])))
        pairs.append((k, v))
    return pairs


def _cmp(ctx, where, got, exp, wit):
    # the other ways to the same values: attribute access (missing names read as None) and copy()
    if hasattr(type(got), 'copy') and type(got).__name__ == 'FormsDict':
        for k in list(exp)[:4] + ['no_such_field']:
            if k.isidentifier() and not k.startswith('__') and not hasattr(dict, k):
                ctx.count('attribute_access_compared')
                if getattr(got, k) != dict.get(got, k):
                    ctx.violation(f'{where}:attribute-access-differs-from-item-access', f'{where}: .{k} -> {getattr(got, k)!r}, [{k!r}] -> {dict.get(got, k)!r}', wit)
                    return False
        cp = got.copy()
        if dict(cp) != dict(got) or type(cp) is not type(got) or list(cp) != list(got):
            ctx.violation(f'{where}:copy-differs', f'{where}: copy() {dict(cp)!r} of {dict(got)!r}', wit)
            return False
    got = dict(got)
    if got != exp or list(got) != list(exp):
        # classify
        if set(got) != set(exp):
            sig = 'keys-differ'
        elif any(type(got[k]) is not type(exp[k]) for k in exp):
            sig = 'single-vs-list-shape-differs'
        elif any(isinstance(exp[k], list) and sorted(got[k]) == sorted(exp[k]) and got[k] != exp[k] for k in exp):
            sig = 'repeat-order-differs'
        elif got == exp:
            sig = 'key-order-differs'
        else:
            sig = 'value-differs'
        ctx.violation(f'{where}:{sig}', f'{where}: sent {exp!r} got {got!r}', wit)
        return False
    return True


def roundtrip_unit(ctx, unit):
    import ombott
    rng = ctx.rng
    app = ombott.Ombott({'max_memfile_size': 4096})
    seen = {}

    @app.route('/q', method=['GET', 'POST'])
    def h():
        rq = app.request
        if seen.get('body_first'):
            # the raw body is consumed (fully or partly) before the form is interpreted
            seen['raw'] = rq.body.read(seen['body_first'])
        def snap(d):
            return {k: (list(v) if isinstance(v, list) else v) for k, v in d.items()}
        seen['query'] = snap(rq.query)
        seen['forms'] = snap(rq.forms)
        seen['params'] = snap(rq.params)
        seen['order'] = (list(rq.query), list(rq.forms))
        # the handler may do with its values what it likes: edit the lists of repeated keys in place
        for src in (rq.query, rq.forms):
            for v in src.values():
                if isinstance(v, list):
                    v.reverse()
                    v.append('edited-by-the-handler')
        return 'ok'

    for i in range(unit['n']):
        pairs = gen_pairs(rng)
        exp = model(pairs)
        style = rng.choice(['plus', 'plus', 'pct20', 'lower'])
        enc = encode(rng, pairs, style)
        rep = len(exp) < len(pairs)
        nontriv = rep or enc != '&'.join(f'{k}={v}' for k, v in pairs)
        wit = {'unit': {'kind': 'one', 'pairs': [list(p) for p in pairs], 'style': style}}
        if rep:
            ctx.count('repeated_key_cases')
        mode = rng.choice(['query', 'forms', 'forms_chunked', 'both', 'wsgi', 'rewritten'])
        ctx.case(('rt', enc, mode), nontrivial=nontriv)
        if i % 211 == 0:
            ctx.sample({'pairs': pairs, 'encoded': enc, 'read_through': mode})
        one_roundtrip(ctx, app, seen, rng, pairs, exp, enc, mode, wit)


def one_roundtrip(ctx, app, seen, rng, pairs, exp, enc, mode, wit):
    import ombott
    if any(isinstance(v, list) for v in exp.values()):
        ctx.count('list_values_seen')
    if mode == 'query':
        rq = ombott.Request(make_environ('GET', '/q', qs=enc))
        ok = _cmp(ctx, 'Request.query', rq.query, exp, wit)
        ctx.count('roundtrips_query')
        _cmp(ctx, 'Request.params', rq.params, exp, wit)
        ctx.count('roundtrips_params')
    elif mode == 'rewritten':
        # an earlier query was read from the same request object, then QUERY_STRING was replaced (what a before_request hook may do)
        first = gen_pairs(rng)
        rq = ombott.Request(make_environ('GET', '/q', qs=encode(rng, first, 'plus')))
        dict(rq.query), dict(rq.params), rq.query_string
        rq['QUERY_STRING'] = enc
        ctx.count('query_replaced_after_a_first_read')
        if rq.query_string != enc:
            ctx.violation('Request.query_string:stale-after-replacement', f'{rq.query_string!r} instead of {enc!r}', wit)
        _cmp(ctx, 'Request.query(after replacement)', rq.query, exp, wit)
        _cmp(ctx, 'Request.params(after replacement)', rq.params, exp, wit)
        _cmp(ctx, 'Request.GET(after replacement)', rq.GET, exp, wit)
        ctx.count('roundtrips_query')
        ctx.count('roundtrips_params')
    elif mode in ('forms', 'forms_chunked'):
        body = enc.encode('ascii')
        if mode == 'forms_chunked':
            raw = chunk_encode(body, rng)
            env = make_environ('POST', '/q', stream=RecStream(raw, ('rand', rng)), content_length=None, chunked=True,
                               content_type='application/x-www-form-urlencoded')
            ctx.count('chunked_forms')
        else:
            st = RecStream(body, ('rand', rng))
            sel = (len(body) + len(pairs)) % 6
            if sel < 3:
                # the whole form in one read, handed out as bytes / bytearray / a view of the server's receive buffer
                st = RecStream(body, 'full')
                if sel == 1:
                    st.as_bytearray()
                elif sel == 2:
                    st.as_reused_buffer_view()
                ctx.count('form_delivered_in_a_single_read')
            env = make_environ('POST', '/q', stream=st, content_length=len(body),
                               content_type=rng.choice(['application/x-www-form-urlencoded', 'application/x-www-form-urlencoded; charset=utf-8', '', 'application/x-www-form-urlencoded; charset=iso-8859-1',
                                                    'application/x-www-form-urlencoded;charset="UTF-8"', 'application/x-www-form-urlencoded; charset=utf8mb4', 'application/x-www-form-urlencoded; charset=x-user-defined; q=1',
                                                    'application/x-www-form-urlencoded; charset=us-ascii', 'application/x-www-form-urlencoded; charset=']) or None)
        rq = ombott.Request(env, config={'max_memfile_size': MEMFILE[0]})
        _cmp(ctx, 'Request.forms', rq.forms, exp, wit)
        ctx.count('roundtrips_forms')
        _cmp(ctx, 'Request.params', rq.params, exp, wit)
        ctx.count('roundtrips_params')
    elif mode == 'both':
        # disjoint keys in query and form: params is their union
        qp = [(k, v) for k, v in pairs if hash(k) % 2 == 0]
        fp = [(k, v) for k, v in pairs if hash(k) % 2 == 1]
        body = encode(rng, fp, 'plus').encode('ascii')
        env = make_environ('POST', '/q', qs=encode(rng, qp, 'plus'), body=body, content_type='application/x-www-form-urlencoded')
        rq = ombott.Request(env, config={'max_memfile_size': MEMFILE[0]})
        union = model(qp)
        union.update(model(fp))
        if len(pairs) % 2:
            # the combined view is read first: it must not leave anything behind in the two views it is made of
            ctx.count('params_read_before_query_and_forms')
            _cmp(ctx, 'Request.params', rq.params, union, wit)
        _cmp(ctx, 'Request.query', rq.query, model(qp), wit)
        _cmp(ctx, 'Request.forms', rq.forms, model(fp), wit)
        _cmp(ctx, 'Request.params', rq.params, union, wit)
        _cmp(ctx, 'Request.query(again)', rq.query, model(qp), wit)
        ctx.count('roundtrips_query')
        ctx.count('roundtrips_forms')
        ctx.count('roundtrips_params')
    else:
        seen.clear()
        use_form = rng.random() < 0.5
        if use_form and rng.random() < 0.5:
            seen['body_first'] = rng.choice([-1, 1, 3, 10000])
            ctx.count('body_consumed_before_forms')
        if use_form:
            env = make_environ('POST', '/q', body=enc.encode('ascii'), content_type='application/x-www-form-urlencoded')
        else:
            env = make_environ('GET', '/q', qs=enc)
        # the same bytes three times in a row: what one request's handler did with its values is not the next request's business
        for rep in range(3):
            if rep:
                seen.pop('params', None)
                env = make_environ('POST', '/q', body=enc.encode('ascii'), content_type='application/x-www-form-urlencoded') if use_form else make_environ('GET', '/q', qs=enc)
                ctx.count('same_request_repeated')
            r = call_app(app, env)
            ctx.count('via_wsgi')
            if r.code != 200 or 'params' not in seen:
                ctx.violation('wsgi:request-failed', f'status {r.status} for {enc!r}: {r.errors[-300:]}', wit)
                return
            tag = '' if not rep else f'(request {rep + 1} with the same bytes)'
            if not _cmp(ctx, ('Request.forms' if use_form else 'Request.query') + tag, seen['forms'] if use_form else seen['query'], exp, wit):
                return
            if not _cmp(ctx, 'Request.params' + tag, seen['params'], exp, wit):
                return
        ctx.count('roundtrips_forms' if use_form else 'roundtrips_query')
        ctx.count('roundtrips_params')


def long_unit(ctx, unit):
    """Single keys and values of thousands of characters (a pasted text, a token, a serialised filter) in front of, between and
    after short fields; the raw (still escaped) lengths are graded around the powers of two."""
    rng = ctx.rng
    seen = {}
    MEMFILE[0] = 1 << 22
    plain = 'abcxyz0189-_.~'
    mixed = list(plain) + [' ', '&', '=', '+', '%', 'é', '日', ';']
    for L in unit['lengths']:
        for shape in ('value_first', 'value_middle', 'value_last', 'key_first', 'key_middle', 'two_long', 'escaped_value_first', 'escaped_key_middle'):
            alpha = mixed if shape.startswith('escaped') else plain
            big = ''.join(rng.choice(alpha) for _ in range(L))
            big2 = ''.join(rng.choice(plain) for _ in range(L))
            pairs = {'value_first': [('text', big), ('id', '7'), ('x', '')], 'value_middle': [('id', '7'), ('text', big), ('id', '8')], 'value_last': [('id', '7'), ('text', big)],
                     'key_first': [(big, 'v'), ('id', '7')], 'key_middle': [('a', '1'), (big, ''), ('a', '2')], 'two_long': [('t', big), ('u', big2), ('t', 'short')],
                     'escaped_value_first': [('text', big), ('id', '7'), ('text', 'again')], 'escaped_key_middle': [('a', '1'), ('k' + big, 'v'), ('id', '7')]}[shape]
            exp = model(pairs)
            for style in ('plus', 'pct20'):
                enc = encode(rng, pairs, style)
                for mode in ('query', 'forms', 'forms_chunked'):
                    ctx.case(('long', L, shape, style, mode), nontrivial=True)
                    ctx.count('fields_of_thousands_of_characters')
                    wit = {'unit': {'kind': 'note', 'shape': shape, 'length_of_the_long_text': L, 'raw_length_of_the_whole_string': len(enc), 'style': style, 'read_through': mode}}
                    one_roundtrip(ctx, None, seen, rng, pairs, exp, enc, mode, wit)
    ctx.sample({'lengths': unit['lengths'][:12], 'shapes': 8})


def _total_one(ctx, sc, s, parse_qsl, budget_per_char=200):
    """parse_qsl(s) must return, without raising, in every output mode."""
    for mode in (0, 1, 2):
        sc.arm(2000 + budget_per_char * len(s))
        try:
            if mode == 0:
                out = parse_qsl(s)
                ok = isinstance(out, list) and all(isinstance(k, str) and isinstance(v, str) and k for k, v in out)
            elif mode == 1:
                acc = []
                parse_qsl(s, append=acc.append)
                ok = all(len(t) == 2 for t in acc)
                out2 = acc
            else:
                d = {}
                parse_qsl(s, setitem=d.__setitem__)
                ok = True
        except BudgetExceeded:
            sc.disarm()
            ctx.violation('parse_qsl:step-budget-exceeded', f'parse_qsl({s!r}) mode {mode} exceeded its step budget', {'unit': {'kind': 'tot1', 's': s}})
            return
        except Exception as e:  # noqa
            sc.disarm()
            ctx.violation(f'parse_qsl:raises-{type(e).__name__}', f'parse_qsl({s!r}) mode {mode} raised {e!r}', {'unit': {'kind': 'tot1', 's': s}})
            return
        n = sc.disarm()
        ctx.note_max('max_steps_per_char_x100', int(100 * n / max(1, len(s))))
        if not ok:
            ctx.violation('parse_qsl:malformed-output', f'parse_qsl({s!r}) mode {mode} -> {out!r}', {'unit': {'kind': 'tot1', 's': s}})
            return
    # the three modes agree with each other (list -> multi-dict)
    if model(out) != d or out != out2:
        ctx.violation('parse_qsl:output-modes-disagree', f'parse_qsl({s!r}): list {out!r} setitem {d!r} append {out2!r}', {'unit': {'kind': 'tot1', 's': s}})
    # and with a plain split-based reading of the same string (structure only)
    exp = []
    for piece in s.split('&'):
        k, sep, v = piece.partition('=')
        if not k:
            continue
        from urllib.parse import unquote
        exp.append((unquote(k.replace('+', ' ')), unquote(v.replace('+', ' '))))
    # a verdict only for strings an encoder can produce (every piece is key=value with a non-empty key and
    # no further '='); for other shapes (empty keys, bare keys, empty pieces) the statement demands totality only
    pieces = s.split('&') if s else []
    encoder_shaped = all(p.count('=') == 1 and not p.startswith('=') for p in pieces)
    if out != exp:
        if encoder_shaped:
            ctx.violation('parse_qsl:differs-from-split-reading', f'parse_qsl({s!r}) -> {out!r}, split reading {exp!r}', {'unit': {'kind': 'tot1', 's': s}})
        else:
            ctx.count('lenient_shape_reading_differs(not a verdict)')
    elif encoder_shaped:
        ctx.count('encoder_shaped_strings_agree')
    ctx.count('totality_strings')


def totality_unit(ctx, unit):
    from ombott.request_pkg.helpers import parse_qsl
    sc = StepCounter().install()
    first = unit['first']
    maxlen = unit['maxlen']
    try:
        if first == '':
            _total_one(ctx, sc, '', parse_qsl)
            ctx.case(None, nontrivial=False)
            return
        for L in range(len(first), maxlen + 1):
            for tail in itertools.product(TOT, repeat=L - len(first)):
                s = first + ''.join(tail)
                _total_one(ctx, sc, s, parse_qsl)
                ctx.case(None, nontrivial=('&' in s or '=' in s or '%' in s))
                if len(ctx.samples) < 2 and L == maxlen and s.count('%') == 2:
                    ctx.sample({'totality_string': s, 'parsed': parse_qsl(s)})
    finally:
        sc.uninstall()


def junk_unit(ctx, unit):
    from ombott.request_pkg.helpers import parse_qsl
    rng = ctx.rng
    sc = StepCounter().install()
    alpha = ALPHA + ['%', '%%', '%u', '%zz', '%e9', '%C3', '&&', '==', '&=', '=&', '\ud800'.encode('utf8', 'surrogatepass').decode('latin1')]
    try:
        for i in range(unit['n']):
            s = ''.join(rng.choice(alpha) for _ in range(rng.randint(0, 40)))
            if rng.random() < 0.05:
                s = s * rng.randint(2, 30)
            _total_one(ctx, sc, s, parse_qsl)
            ctx.case(('junk', s), nontrivial=True)
            if i % 4001 == 0:
                ctx.sample({'junk_string': s[:80]})
    finally:
        sc.uninstall()


def run_unit(ctx, unit):
    k = unit['kind']
    if k == 'long':
        long_unit(ctx, unit)
    elif k == 'roundtrip':
        roundtrip_unit(ctx, unit)
    elif k == 'totality':
        totality_unit(ctx, unit)
    elif k == 'junk':
        junk_unit(ctx, unit)
    elif k == 'tot1':
        from ombott.request_pkg.helpers import parse_qsl
        sc = StepCounter().install()
        try:
            _total_one(ctx, sc, unit['s'], parse_qsl)
        finally:
            sc.uninstall()
    elif k == 'one':
        import ombott
        import random
        pairs = [tuple(p) for p in unit['pairs']]
        exp = model(pairs)
        enc = encode(None, pairs, unit['style'])
        print(f'  encoded: {enc!r}\n  expected: {exp!r}')
        app = ombott.Ombott()
        seen = {}

        @app.route('/q', method=['GET', 'POST'])
        def h():
            rq = app.request
            seen['query'] = dict(rq.query)
            seen['forms'] = dict(rq.forms)
            seen['params'] = dict(rq.params)
            return 'ok'
        for mode in ('query', 'forms', 'forms_chunked', 'both', 'wsgi', 'rewritten'):
            one_roundtrip(ctx, app, seen, random.Random(1), pairs, exp, enc, mode, None)
