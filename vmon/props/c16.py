"""C16 - static_file never serves a file outside its root.

A real directory tree is built in a temporary directory (root with files and a
subdirectory, sibling directories whose names extend the root's name, decoy files
beside and above the root, a file with a backslash in its name, a symlink-free layout).
For every requested name x root spelling the call is observed by
  * an audit-hook recorder of every path handed to open() during the call,
  * realpath containment of whatever was served,
  * byte equality of the served body with the file the harness wrote there.
"""
import os
import itertools
import tempfile
import shutil
from vmon.wsgi import make_environ, call_app
from vmon.probes import get_open_audit

RULE = ('file names = product of segment kinds {file names in root, subdir, ., .., empty, sibling directory names that extend the '
        "root's name, decoy names, absolute prefixes incl. the root itself, the sibling and /etc/passwd} x 1..3 segments x separators "
        '{/, \\, //, /./} x leading forms {none, /, \\, //} x root spellings {plain, trailing /, doubled /, via sub/.., relative, /.}; '
        'each call audited for open() and compared with the tree on disk, and repeated as HEAD (a 200 must describe a file inside the root: every file has its own size); histories over several roots (every file of one root served first, then another root asked for it by absolute path); also driven through Ombott.__call__ with the name taken '
        'from a path wildcard. Non-trivial = the name contains a dot-dot, an absolute prefix, a backslash or a sibling name; '
        'distinct = distinct (root spelling, filename).')
PYOPT = {'quick': 1, 'thorough': 1}     # one unit of every kind is also served by an interpreter started with -O (assert statements compiled out)
REQUIRED = ['units_run_under_python_-O', 'relative_root_at_or_above_the_working_directory', 'refused_names_asked_again_conditionally', 'calls_in_a_walk_over_root_spellings', 'calls_with_a_root_that_does_not_exist', 'names_that_are_not_text', 'names_of_more_than_64_segments', 'relative_root_after_chdir', 'head_requests', 'probes_after_serving_another_root', 'served_200', 'denied_403', 'missing_404', 'opens_observed', 'names_with_dotdot', 'names_with_backslash',
            'names_absolute', 'names_sibling_prefix', 'served_content_compared', 'via_wsgi']
EXHAUSTIVE = {'quick': False, 'thorough': False,
              'quick_note': 'the product units enumerate the name product for <=2 segments completely', 'thorough_note': 'the product units enumerate the name product for <=3 segments completely'}
ASSUMPTIONS = ['the tree contains no symbolic links (the statement speaks of the normalised location)',
               'POSIX path semantics (os.sep == "/")']

SEPS = ['/', '\\', '//', '/./']
LEADS = ['', '/', '\\', '//']


def build_tree():
    base = tempfile.mkdtemp(prefix='vmon-c16-', dir='/dev/shm' if os.path.isdir('/dev/shm') else None)
    files = {}

    def put(rel, content):
        p = os.path.join(base, rel)
        os.makedirs(os.path.dirname(p), exist_ok=True)
        with open(p, 'wb') as f:
            f.write(content)
        files[os.path.realpath(p)] = content
    # every file has its own size, so that a response without a body (HEAD) still tells which file it describes
    put('top-secret.txt', b'ABOVE-ROOT' * 7)
    put('www/index.html', b'<p>index</p>')
    put('www/a.txt', b'file a')
    put('www/sub/b.txt', b'file b in sub')
    put('www/sub/deep/c.bin', b'\x00\x01c')
    put('www/back\\slash.txt', b'backslash name')
    put('www/..hidden', b'dotdot-prefixed name inside root')
    put('www2/a.txt', b'SIBLING www2' * 11)
    put('www-private/secret.txt', b'SIBLING www-private' * 13)
    put('wwwx', b'SIBLING file wwwx' * 17)
    put('other/a.txt', b'OTHER' * 19)
    # a second tree with the same relative layout: what a relative root means depends on the working directory
    put('alt/www/a.txt', b'ALT a' * 23)
    put('alt/www/only-alt.txt', b'ALT only' * 29)
    put('alt/www/sub/b.txt', b'ALT b in sub' * 31)
    put('alt/www2/a.txt', b'ALT SIBLING www2' * 37)
    # a mirror beside the root that repeats the root's absolute path below itself (backup / chroot copy)
    put('mirror' + os.path.join(base, 'www') + '/passwords.txt', b'MIRRORED passwords' * 41)
    put('mirror' + os.path.join(base, 'www') + '/a.txt', b'MIRRORED a' * 43)
    return base, files


SEGMENTS = ['a.txt', 'index.html', 'sub', 'b.txt', 'deep', 'c.bin', '.', '..', '', 'nope', '..hidden', 'back\\slash.txt',
            'www', 'www2', 'www-private', 'secret.txt', 'wwwx', 'other', 'top-secret.txt',
            # characters that only look like dots and separators (compatibility forms): ordinary, if odd, file names
            '\u2025', '\u2024\u2024', '\uff0e\uff0e', '..\uff0f', '\u2025\uff0ftop-secret.txt']


def names(maxseg, base):
    root = os.path.join(base, 'www')
    abs_prefixes = [root, root + '/', os.path.join(base, 'www2'), base, '/etc/passwd', '/etc', os.path.join(base, 'www-private') + '/']
    for n in range(1, maxseg + 1):
        for segs in itertools.product(SEGMENTS, repeat=n):
            for sep in (SEPS if n > 1 else ['/']):
                body = sep.join(segs)
                for lead in LEADS:
                    yield lead + body
    # locations outside the root that contain the root's absolute path further down
    for tail in ('passwords.txt', 'a.txt', 'sub/../a.txt'):
        for lead in ('../', '/../', 'sub/../../', './../'):
            yield lead + 'mirror' + root + '/' + tail
            yield lead + 'mirror' + root + '//' + tail
    # very many segments: fillers that cancel out, then a step out of the root (or a file inside it)
    for count in (7, 31, 32, 33, 60, 63, 64, 65, 66, 100, 127, 128, 129, 300, 1025):
        for filler in ('./', 'sub/../', '//', 'sub/deep/../../', 'nope/../'):
            for tail in ('../top-secret.txt', '../www2/a.txt', '../www-private/secret.txt', 'a.txt', 'sub/b.txt', '../www/a.txt', '..'):
                yield filler * count + tail
    # one segment whose name holds backslashes (a literal name on this platform) followed by steps up: the steps are counted from
    # the one segment, not from what the name would be if its backslashes were separators
    for seg in ('a\\b', 'x\\y\\z', 'sub\\deep', 'back\\slash.txt', '\\a', 'a\\', 'sub\\..\\..'):
        for ups in (1, 2, 3):
            for tail in ('top-secret.txt', 'www2/a.txt', 'www-private/secret.txt', 'www/a.txt', 'a.txt', 'other/a.txt'):
                for lead in ('', '/', 'sub/'):
                    yield lead + seg + '/..' * ups + '/' + tail
    # absolute prefixes followed by 0..2 segments
    for pre in abs_prefixes:
        for n in range(0, min(maxseg, 2) + 1):
            for segs in itertools.product(SEGMENTS, repeat=n):
                for sep in ['/', '\\']:
                    yield pre + (sep if n else '') + sep.join(segs)
                    if n == 0:
                        break


def root_spellings(base):
    root = os.path.join(base, 'www')
    import pathlib
    return [('plain', root), ('trailing', root + '/'), ('doubled', root + '//'), ('via_sub', root + '/sub/..'),
            ('dot', root + '/.'), ('relative', 'www'), ('relative_dot', './www/'),
            # path objects (os.PathLike): the root is what os.fspath() says
            ('pathlib', pathlib.Path(root)), ('pure_posix_path', pathlib.PurePosixPath(root + '/')), ('pathlib_relative', pathlib.Path('www'))]


def _safe(f, *a):
    """path functions of the harness itself under a locale that cannot encode the name: the name then denotes nothing"""
    try:
        return f(*a)
    except (UnicodeError, ValueError):
        return ''


def classify(ctx, name):
    if name.count('/') > 64:
        ctx.count('names_of_more_than_64_segments')
    if '..' in name.replace('..hidden', ''):
        ctx.count('names_with_dotdot')
    if '\\' in name:
        ctx.count('names_with_backslash')
    if name.lstrip('/\\') != name and len(name) > 1 or name.startswith('/etc'):
        ctx.count('names_absolute')
    if 'www2' in name or 'www-private' in name or 'wwwx' in name:
        ctx.count('names_sibling_prefix')


def check_head(ctx, static_file, base, files, real_root, rname, root, name, wit):
    """The same request as HEAD: nothing is opened, but a 200/206/304 must describe a file inside the root
    (every file in the tree has its own size)."""
    import ombott
    ombott.request.__init__(make_environ('HEAD', '/'))
    try:
        try:
            res = static_file(name, root)
        except Exception as e:  # noqa
            ctx.violation(f'static_file-raises-{type(e).__name__}', f'HEAD static_file({name!r}, root={rname}) raised {e!r}', wit)
            return
        ctx.count('head_requests')
        if res.status_code in (200, 206, 304):
            sizes_inside = {len(c) for p, c in files.items() if p.startswith(real_root + os.sep)}
            cl = res.headers.get('Content-Length')
            try:
                n = int(cl)
            except (TypeError, ValueError):
                n = None
            if res.status_code == 200 and n not in sizes_inside:
                ctx.violation('head-describes-a-file-outside-root', f'HEAD static_file({name!r}, root={rname}:{root!r}) -> {res.status_line} Content-Length {cl} '
                              f'(sizes of files inside the root: {sorted(sizes_inside)})', wit)
            body = getattr(res, 'body', None)
            if hasattr(body, 'close'):
                body.close()
    finally:
        ombott.request.__init__(make_environ('GET', '/'))


def check_call(ctx, static_file, audit, base, files, real_root, rname, root, name, wit):
    with audit:
        try:
            res = static_file(name, root)
        except Exception as e:  # noqa
            if not isinstance(name, str):
                ctx.count('bytes_like_name_refused')      # a name that is no text may be refused outright
                for p in audit.paths:
                    rp = os.path.realpath(p if isinstance(p, str) else os.fsdecode(p)) if not isinstance(p, int) else None
                    if rp is None or not rp.startswith(real_root + os.sep):
                        ctx.violation('open-outside-root', f'static_file({name!r}, root={rname}) opened {p!r} before raising {e!r}', wit)
                return
            ctx.violation(f'static_file-raises-{type(e).__name__}', f'static_file({name!r}, root={rname}) raised {e!r}', wit)
            return
    opened = list(audit.paths)
    code = res.status_code
    inside = real_root + os.sep
    for p in opened:
        ctx.count('opens_observed')
        rp = os.path.realpath(p if isinstance(p, str) else os.fsdecode(p)) if not isinstance(p, int) else None
        if rp is None or not rp.startswith(inside):
            ctx.violation('open-outside-root', f'static_file({name!r}, root={rname}:{root!r}) opened {p!r} (status {code})', wit)
    if code in (200, 206):
        ctx.count('served_200')
        body = res.body
        data = body.read() if hasattr(body, 'read') else (b''.join(body) if not isinstance(body, (str, bytes)) else body)
        if hasattr(body, 'close'):
            body.close()
        if len(opened) != 1:
            ctx.violation('served-without-exactly-one-open', f'{name!r}: opens {opened!r}', wit)
            return
        rp = os.path.realpath(opened[0])
        exp = files.get(rp)
        ctx.count('served_content_compared')
        if exp is None or data != exp:
            ctx.violation('served-content-is-not-the-file-inside-root', f'{name!r} root={rname}: served {data[:40]!r} from {rp}', wit)
        # the normalised location of the request is that file
        norm = _safe(os.path.realpath, os.path.join(real_root, name.strip('/\\')))
        if norm != rp:
            # not demanded by the statement (it only forbids serving from outside the root): an observation
            ctx.count('served_other_file_inside_root_than_stripped_join(not a verdict)')
    elif code == 403:
        ctx.count('denied_403')
        if opened:
            ctx.violation('open-on-denied-request', f'{name!r}: {opened!r}', wit)
    elif code == 404:
        ctx.count('missing_404')
        if opened:
            ctx.violation('open-on-missing-file', f'{name!r}: {opened!r}', wit)
        # 404 only for something that is not a regular file inside the root
        norm = _safe(os.path.normpath, os.path.join(real_root, name.strip('/\\')))
        if norm.startswith(inside) and os.path.isfile(norm):
            ctx.count('existing_file_inside_root_answered_404(not a verdict)')
    else:
        ctx.violation(f'unexpected-status-{code}', f'{name!r} root={rname}', wit)
    if code == 403:
        norm = _safe(os.path.normpath, os.path.join(real_root, name.strip('/\\')))
        if norm.startswith(inside) and os.path.isfile(norm) and os.access(norm, os.R_OK):
            ctx.count('readable_file_inside_root_answered_403(not a verdict)')
    if code == 200 and len(str(name)) % 3 == 0:
        # the same file offered for download under another name (a string that also names a file outside the root): what is opened is
        # still the requested file, the other name only goes into the Content-Disposition header
        for dl in ('top-secret.txt', os.path.join(base, 'top-secret.txt'), '../www2/a.txt'):
            with audit:
                try:
                    res3 = static_file(name, root, download=dl)
                except Exception as e:  # noqa
                    ctx.violation(f'static_file-raises-{type(e).__name__}', f'static_file({name!r}, root={rname}, download={dl!r}) raised {e!r}', wit)
                    continue
            ctx.count('served_for_download_under_another_name')
            body3 = getattr(res3, 'body', None)
            data3 = body3.read() if hasattr(body3, 'read') else b''
            if hasattr(body3, 'close'):
                body3.close()
            outside = [p for p in audit.paths if isinstance(p, (str, bytes)) and not os.path.realpath(os.fsdecode(p)).startswith(inside)]
            if outside or (res3.status_code == 200 and data3 != data):
                ctx.violation('open-outside-root', f'static_file({name!r}, root={rname}:{root!r}, download={dl!r}) opened {audit.paths!r} and served {data3[:30]!r}', wit)
    if code in (403, 404):
        # the same name asked for conditionally (a date in the future, a date in the past) and as a range: headers of the
        # request may turn a 200 into a 304 / 206, they never turn a refusal into anything else
        import ombott
        for hdrs in ({'If-Modified-Since': 'Fri, 01 Jan 2100 00:00:00 GMT'}, {'If-Modified-Since': 'Thu, 01 Jan 1970 00:00:01 GMT', 'Range': 'bytes=0-0'}):
            ombott.request.__init__(make_environ('GET', '/', headers=hdrs))
            try:
                with audit:
                    try:
                        res2 = static_file(name, root)
                        code2 = res2.status_code
                    except Exception as e:  # noqa
                        code2 = 'raised ' + type(e).__name__
                ctx.count('refused_names_asked_again_conditionally')
                if code2 != code:
                    ctx.violation('refusal-depends-on-request-headers', f'static_file({name!r}, root={rname}:{root!r}) -> {code}, with {hdrs} -> {code2}', wit)
                if [p for p in audit.paths if isinstance(p, (str, bytes))]:
                    ctx.violation('open-on-denied-request', f'{name!r} with {hdrs}: {audit.paths!r}', wit)
                body2 = getattr(locals().get('res2'), 'body', None)
                if hasattr(body2, 'close'):
                    body2.close()
            finally:
                ombott.request.__init__(make_environ('GET', '/'))


def history_unit(ctx, unit):
    """Several roots served by one process: every file of root A is first served legitimately, then the whole name
    product (incl. the absolute paths of A's files) is asked of root B; containment is judged against the root of
    *that* call.  Catches anything remembered from one call that short-cuts the checks of a later one."""
    ombott, static_file = _setup()
    audit = get_open_audit()
    base, files = build_tree()
    cwd = os.getcwd()
    os.chdir(base)
    try:
        roots = ['www', 'www2', 'www-private', 'www/sub']
        for ra in roots:
            for rb in roots:
                if ra == rb:
                    continue
                root_a = os.path.join(base, ra)
                root_b = os.path.join(base, rb)
                real_b = os.path.realpath(root_b)
                inside_a = [p for p in files if p.startswith(os.path.realpath(root_a) + os.sep)]
                for rep in range(2):
                    for p in inside_a:
                        rel = os.path.relpath(p, root_a)
                        for nm in (rel, '/' + rel, p):
                            with audit:
                                res = static_file(nm, root_a)
                            body = getattr(res, 'body', None)
                            if hasattr(body, 'close'):
                                body.close()
                    ctx.count('legitimate_serves_before_probing')
                    cand = [p for p in inside_a] + [os.path.relpath(p, root_b) for p in inside_a] + ['/' + os.path.relpath(p, root_a) for p in inside_a]
                    cand += list(itertools.islice(names(1, base), 0, 400))
                    for name in cand:
                        ctx.case(('hist', ra, rb, name.replace(base, '')), nontrivial=True)
                        classify(ctx, name)
                        wit = {'unit': {'kind': 'note', 'served_first_from': ra, 'then_asked_of': rb, 'name': name.replace(base, '<BASE>')}}
                        check_call(ctx, static_file, audit, base, files, real_b, rb, root_b, name, wit)
                        ctx.count('probes_after_serving_another_root')
        ctx.sample({'roots': roots, 'scheme': 'serve every file of root A (relative, slash-prefixed and absolute spelling), then ask root B for names incl. the absolute paths of files of A'})
        # relative roots and a working directory that changes between calls: the root of a call is resolved when the call is made
        alt = os.path.join(base, 'alt')
        rels = ['www', 'www2', './www', 'www/sub']
        for here, there in ((base, alt), (alt, base)):
            for r1 in rels:
                for r2 in rels:
                    if r1 == r2:
                        continue
                    os.chdir(here)
                    real_1_here = os.path.realpath(r1)
                    inside_here = [p for p in files if p.startswith(real_1_here + os.sep)]
                    for p in inside_here:
                        with audit:
                            res = static_file(os.path.relpath(p, real_1_here), r1)
                        body = getattr(res, 'body', None)
                        if hasattr(body, 'close'):
                            body.close()
                    os.chdir(there)
                    real_1 = os.path.realpath(r1)
                    real_2 = os.path.realpath(r2)
                    some = list(itertools.islice(names(1, base), 0, 60))
                    for name in some[:20]:
                        check_call(ctx, static_file, audit, base, files, real_2, r2, r2, name, {'unit': {'kind': 'note', 'cwd': there.replace(base, '<BASE>'), 'root': r2, 'name': name.replace(base, '<BASE>')}})
                    cand = [os.path.relpath(p, real_1_here) for p in inside_here] + [os.path.relpath(p, real_1) for p in inside_here] + some
                    for name in cand:
                        ctx.case(('chdir', here == base, r1, r2, name.replace(base, '')), nontrivial=True)
                        wit = {'unit': {'kind': 'note', 'served_first': [here.replace(base, '<BASE>'), r1], 'then_cwd': there.replace(base, '<BASE>'), 'other_root_asked_in_between': r2,
                                        'root': r1, 'name': name.replace(base, '<BASE>')}}
                        check_call(ctx, static_file, audit, base, files, real_1, r1, r1, name, wit)
                        check_head(ctx, static_file, base, files, real_1, r1, r1, name, wit)
                        ctx.count('relative_root_after_chdir')
        # relative roots that are the working directory itself or lie above it ('.', './', '', '..'), the server standing inside the tree
        for here, rel_roots in ((os.path.join(base, 'www'), ['.', './', '', './.', 'sub/..', '../www']), (os.path.join(base, 'www', 'sub'), ['..', '../', '../.', '../../www', 'deep/../..']),
                                (os.path.join(base, 'www', 'sub', 'deep'), ['../..', '../../', '..'])):
            os.chdir(here)
            for rr in rel_roots:
                real = os.path.realpath(rr) if rr else os.path.realpath('.')
                for name in ['a.txt', 'sub/b.txt', 'b.txt', 'c.bin', 'index.html', '../top-secret.txt', '../../top-secret.txt', '../www2/a.txt', '../../www2/a.txt', '../a.txt', '../../a.txt',
                             '../www-private/secret.txt', '../../../top-secret.txt', '..', '../..', '/../top-secret.txt', 'sub/../../top-secret.txt', '../www/a.txt', '../other/a.txt']:
                    ctx.case(('relroot', here.replace(base, ''), rr, name), nontrivial=True)
                    wit = {'unit': {'kind': 'note', 'cwd': here.replace(base, '<BASE>'), 'root': rr, 'name': name}}
                    check_call(ctx, static_file, audit, base, files, real, rr or "''", rr, name, wit)
                    ctx.count('relative_root_at_or_above_the_working_directory')
        # a long walk over many roots in many absolute spellings (two spellings of one directory are two strings), some of
        # them directories that do not exist: the root of a call is the one given to that call, whatever was served before
        os.chdir(base)
        dirs = ['www', 'www2', 'www-private', 'www/sub', 'alt/www', 'gone', 'www-missing', 'www/sub/nothing-here']
        pool = []
        for d in dirs:
            a = os.path.join(base, d)
            pool += [(d, a), (d + '/', a + '/'), (d + '//', a + '//'), (d + '/.', a + '/.')]
        rels = ['a.txt', 'index.html', 'b.txt', 'sub/b.txt', 'deep/c.bin', 'secret.txt', 'only-alt.txt', '../www/a.txt', '../www2/a.txt', '../a.txt', '../other/a.txt', 'nope']
        rng = ctx.rng
        walk = []
        for step in range(unit.get('walk', 2500)):
            rname, root = rng.choice(pool) if rng.random() < 0.8 or not walk else walk[-1 - rng.randrange(min(len(walk), 3))]
            walk.append((rname, root))
            name = rng.choice(rels)
            real = os.path.realpath(root)
            ctx.case(('walk', step, rname, name), nontrivial=True)
            wit = {'unit': {'kind': 'note', 'roots_of_the_calls_before (last 8)': [w[0] for w in walk[-9:-1]], 'root': rname, 'name': name}}
            check_call(ctx, static_file, audit, base, files, real, rname, root, name, wit)
            ctx.count('calls_in_a_walk_over_root_spellings')
            if not os.path.isdir(real):
                ctx.count('calls_with_a_root_that_does_not_exist')
    finally:
        os.chdir(cwd)
        shutil.rmtree(base, ignore_errors=True)


def plan(tier, seed):
    maxseg = 2 if tier == 'quick' else 3
    shards = 4 if tier == 'quick' else 32
    units = [{'kind': 'product', 'maxseg': maxseg, 'shard': i, 'shards': shards} for i in range(shards)]
    units.append({'kind': 'wsgi', 'n': 400 if tier == 'quick' else 5000})
    units.append({'kind': 'history', 'walk': 2500 if tier == 'quick' else 40000})
    return units


def _setup():
    import mimetypes
    mimetypes.init()
    mimetypes.guess_type('x.txt')
    import ombott
    from ombott.static_stream import static_file
    ombott.request.__init__(make_environ('GET', '/'))
    return ombott, static_file


def product_unit(ctx, unit):
    ombott, static_file = _setup()
    audit = get_open_audit()
    base, files = build_tree()
    cwd = os.getcwd()
    os.chdir(base)
    try:
        real_root = os.path.realpath(os.path.join(base, 'www'))
        k = 0
        for rname, root in root_spellings(base):
            for name in names(unit['maxseg'], base):
                k += 1
                if k % unit['shards'] != unit['shard']:
                    continue
                nontriv = ('..' in name or '\\' in name or name.startswith(('/', '\\')) or 'www' in name)
                ctx.case(None, nontrivial=nontriv)
                classify(ctx, name)
                show = name.replace(base, '<BASE>')
                wit = {'unit': {'kind': 'one', 'root': rname, 'name': show}}
                check_call(ctx, static_file, audit, base, files, real_root, rname, root, name, wit)
                if nontriv and ('..' in name or name.startswith(('/', '\\')) or 'www' in name):
                    check_head(ctx, static_file, base, files, real_root, rname, root, name, wit)
                if k % 50021 == 0:
                    ctx.sample({'root_spelling': rname, 'filename': show})
        if unit['shard'] == 0:
            # names that are not text: bytes, bytearray, memoryview, with bytes that are not UTF-8 next to dots
            raw = [b'a.txt', b'../top-secret.txt', b'.\xff./top-secret.txt', b'.\x80./www2/a.txt', b'\xc3../top-secret.txt', b'sub/.\xff./.\xff./top-secret.txt',
                   b'..\xff/top-secret.txt', b'\xff../top-secret.txt', b'sub/b.txt', b'.\xfe.\xff/top-secret.txt']
            for rname, root in root_spellings(base)[:3]:
                for nm in raw:
                    for conv in (bytes, bytearray, memoryview):
                        name = conv(nm)
                        ctx.case(('bytes-name', rname, nm, conv.__name__), nontrivial=True)
                        ctx.count('names_that_are_not_text')
                        wit = {'unit': {'kind': 'note', 'root': rname, 'name': repr(nm), 'type': conv.__name__}}
                        try:
                            check_call(ctx, static_file, audit, base, files, real_root, rname, root, name, wit)
                        except Exception as e:  # noqa
                            ctx.violation(f'static_file-result-unusable-{type(e).__name__}', f'{conv.__name__} name {nm!r}: {e!r}', wit)
    finally:
        os.chdir(cwd)
        shutil.rmtree(base, ignore_errors=True)


def wsgi_unit(ctx, unit):
    """The same monitor with the name arriving as a request path through the application."""
    import ombott
    from ombott.static_stream import static_file
    import mimetypes
    mimetypes.init()
    audit = get_open_audit()
    base, files = build_tree()
    rng = ctx.rng
    app = ombott.default_app()
    real_root = os.path.realpath(os.path.join(base, 'www'))
    try:
        for r in list(app.router.routes.values()):
            app.router.remove(r)
        def serve(fn):
            # armed only around the call under observation (the error page template is also read with open())
            with audit:
                return static_file(fn, root=real_root)
        app.route('/static/<fn:path>', 'GET', serve)
        all_names = list(names(2, base))
        for i in range(unit['n']):
            name = rng.choice(all_names)
            if '\r' in name or '\n' in name:
                continue
            env = make_environ('GET', '/static/' + name)
            audit.paths = []
            r = call_app(app, env)
            ctx.count('via_wsgi')
            ctx.case(('wsgi', name.replace(base, '')), nontrivial=True)
            wit = {'unit': {'kind': 'one_wsgi', 'name': name.replace(base, '<BASE>')}}
            for p in audit.paths:
                ctx.count('opens_observed')
                if not os.path.realpath(p).startswith(real_root + os.sep):
                    ctx.violation('open-outside-root', f'GET /static/{name}: opened {p!r}', wit)
            if r.code == 200:
                ctx.count('served_200')
                ok = [c for p, c in files.items() if p.startswith(real_root + os.sep)]
                ctx.count('served_content_compared')
                if r.body not in ok:
                    ctx.violation('served-content-is-not-the-file-inside-root', f'GET /static/{name}: {r.body[:40]!r}', wit)
            elif r.code == 403:
                ctx.count('denied_403')
            elif r.code == 404:
                ctx.count('missing_404')
            elif r.code >= 500:
                ctx.violation(f'unexpected-status-{r.code}', f'GET /static/{name}: {r.errors[-200:]}', wit)
    finally:
        shutil.rmtree(base, ignore_errors=True)


def run_unit(ctx, unit):
    k = unit['kind']
    if k == 'product':
        product_unit(ctx, unit)
    elif k == 'wsgi':
        wsgi_unit(ctx, unit)
    elif k == 'history':
        history_unit(ctx, unit)
    elif k == 'note':
        print('  witness:', unit)
    elif k == 'one':
        ombott, static_file = _setup()
        audit = get_open_audit()
        base, files = build_tree()
        cwd = os.getcwd()
        os.chdir(base)
        try:
            real_root = os.path.realpath(os.path.join(base, 'www'))
            root = dict(root_spellings(base))[unit['root']]
            name = unit['name'].replace('<BASE>', base)
            check_call(ctx, static_file, audit, base, files, real_root, unit['root'], root, name, None)
            print(f'  static_file({name!r}, {root!r}) -> opens {audit.paths}')
        finally:
            os.chdir(cwd)
            shutil.rmtree(base, ignore_errors=True)
