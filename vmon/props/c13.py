"""C13 - body size limits and disk spooling bound what a request can consume.

A fully enumerated grid: body sizes around the limits x max_body_size x max_memfile_size x
framing (Content-Length; chunked with chunk sizes 1, B-1, B, B+1, 10B) x content kind (raw,
urlencoded, multipart text field, multipart text spread over several fields, multipart file part).  Oracle = arithmetic on the configured
limits + the byte count of the recording wsgi.input (for chunked framing the *payload* bytes
inside the consumed prefix, from the encoder's offset table) + type(Request.body) + content
equality, all observed from a handler behind Ombott.__call__.
"""
import io
from vmon.wsgi import make_environ, call_app, RecStream

RULE = ('grid cells (size, max_body_size L, max_memfile_size B, framing, content kind), sizes in {0,1,L-1,L,L+1,L+B-1,L+B,L+B+1,10L} (relative to B '
        'when there is no limit), L in {None,0,1,17,100,4096}, B in {1,16,100,4096}; each cell is one request through Ombott.__call__ whose handler '
        'reads the body the way the content kind asks. Non-trivial = the size is within one buffer of a limit or above it; distinct = distinct cell.')
PYOPT = {'quick': 1, 'thorough': 1}     # one unit of every kind is also served by an interpreter started with -O (assert statements compiled out)
REQUIRED = ['units_run_under_python_-O', 'multipart_followed_by_a_long_epilogue', 'multipart_text_outside_ascii', 'raw_body_announced_as_multipart_but_refused_by_the_scanner', 'limits_given_to_ctor', 'limits_given_to_setup', 'limits_given_to_resetup', 'chunked_with_misleading_content_length', 'multipart_text_over_threshold_in_several_fields', 'rejected_413', 'accepted_within_limit', 'spooled_to_disk', 'kept_in_memory', 'consumption_checked', 'chunked_cells', 'cl_cells',
            'urlencoded_refused_over_threshold', 'multipart_text_refused_over_threshold', 'multipart_file_over_threshold_delivered',
            'content_compared', 'exactly_at_limit_accepted', 'one_over_limit_rejected']
EXHAUSTIVE = {'quick': False, 'thorough': False, 'quick_note': 'the grid units enumerate the grid without L=4096/B=4096 completely; random units add seeded off-grid cells', 'thorough_note': 'the grid units enumerate the whole grid completely; random units add seeded off-grid cells'}
ASSUMPTIONS = ['chunked framing is exercised only where a chunk size line fits the configured buffer (B >= 16)',
               'how an over-threshold form text is refused (its status) belongs to C12; here only that it is not delivered',
               'between "one text value above the threshold" (must be refused) and "headers plus all text within the threshold" (must be delivered) either answer is accepted']

BOUNDARY = 'BoUnD'


def chunk_table(payload, csize):
    """-> (encoded bytes, table of (enc_offset_of_data, data_len))"""
    out = bytearray()
    table = []
    pos = 0
    n = len(payload)
    while pos < n:
        sz = min(csize, n - pos)
        out += b'%x\r\n' % sz
        table.append((len(out), sz))
        out += payload[pos:pos + sz] + b'\r\n'
        pos += sz
    out += b'0\r\n\r\n'
    return bytes(out), table


def payload_within(table, consumed):
    tot = 0
    for off, sz in table:
        if consumed <= off:
            break
        tot += min(sz, consumed - off)
    return tot


def make_body(kind, size, wide=False):
    """-> (body bytes, info).  For multipart kinds `size` is the size of the part's data."""
    if kind == 'raw':
        return bytes((i * 31 + 7) % 256 for i in range(size)), {}
    if kind == 'urlencoded':
        if size < 2:
            return b'a' * size, {'forms': ({'a': ''} if size else {})}
        val = 'x' * (size - 2)
        return ('a=' + val).encode(), {'forms': {'a': val}}
    data = bytes(97 + (i * 7) % 26 for i in range(size))
    if kind == 'mp_texts':
        # the same amount of text spread over four fields, each below the threshold on its own
        k = 4
        pieces = [data[i * size // k:(i + 1) * size // k] for i in range(k)]
        if wide:
            # the same number of bytes as text outside ASCII (3 and 4 bytes per character): the budget is one of bytes
            pieces = [(('€' if i % 2 else '\U0001f600') * (len(pc) // (3 if i % 2 else 4))).encode() + b'z' * (len(pc) % (3 if i % 2 else 4)) for i, pc in enumerate(pieces)]
            data = b''.join(pieces)
        out = bytearray()
        hdr = 0
        for i, pc in enumerate(pieces):
            h = f'Content-Disposition: form-data; name="t{i}"'
            hdr += len(h)
            out += f'--{BOUNDARY}\r\n{h}\r\n\r\n'.encode() + pc + b'\r\n'
        out += f'--{BOUNDARY}--\r\n'.encode()
        return bytes(out), {'data': data, 'hdr_len': hdr, 'pieces': pieces}
    if kind == 'mp_text':
        head = f'--{BOUNDARY}\r\nContent-Disposition: form-data; name="t"\r\n\r\n'.encode()
        hdr_len = len('Content-Disposition: form-data; name="t"')
    else:
        head = f'--{BOUNDARY}\r\nContent-Disposition: form-data; name="f"; filename="f.bin"\r\nContent-Type: application/octet-stream\r\n\r\n'.encode()
        hdr_len = len('Content-Disposition: form-data; name="f"; filename="f.bin"\r\nContent-Type: application/octet-stream')
    body = head + data + f'\r\n--{BOUNDARY}--\r\n'.encode()
    return body, {'data': data, 'hdr_len': hdr_len}


HOWS = ['ctor', 'setup', 'resetup', 'ctor_mappingproxy', 'setup_chainmap', 'ctor_userdict']     # how the application came by its limits (and in what kind of mapping)
HOW_OF = {}


def build_app(L, B, seen, how='ctor'):
    import ombott
    cfg = {'max_body_size': L, 'max_memfile_size': B}
    if how == 'ctor_mappingproxy':
        import types
        app = ombott.Ombott(types.MappingProxyType(cfg))
    elif how == 'setup_chainmap':
        import collections
        app = ombott.Ombott()
        app.setup(collections.ChainMap({}, cfg))
    elif how == 'ctor_userdict':
        import collections
        app = ombott.Ombott(collections.UserDict(cfg))
    elif how == 'ctor':
        app = ombott.Ombott(cfg)
    elif how == 'setup':
        app = ombott.Ombott()           # created with the defaults, configured afterwards
        app.setup(cfg)
    else:
        app = ombott.Ombott({'max_body_size': 5 if L is None else None, 'max_memfile_size': B * 3 + 7})
        app.setup({'max_body_size': 3, 'max_memfile_size': 2})
        app.setup(cfg)                  # the last setup() is the one in force
    HOW_OF[id(app)] = how

    @app.route('/raw', method='POST')
    def raw():
        b = app.request.body
        seen['type'] = type(b).__name__
        seen['body'] = b.read()
        seen['bodyobj'] = b
        return 'ok'

    @app.route('/rawcopy', method='POST')
    def rawcopy():
        b = app.request.copy().body
        seen['type'] = type(b).__name__
        seen['body'] = b.read()
        return 'ok'

    @app.route('/forms', method='POST')
    def forms():
        if app.request.content_type.startswith('application/x-www-form-urlencoded') and app.request.query.get('again'):
            # an audit hook looked at the form first and swallowed the refusal: the handler's own look is refused as well
            import ombott as _o
            try:
                app.request.forms
            except _o.HTTPError:
                seen['first_refused'] = True
        f = app.request.forms
        seen['forms'] = dict(f)
        seen['type'] = type(app.request.body).__name__
        fl = app.request.files
        seen['files'] = {k: v.file.read() for k, v in fl.items()}
        return 'ok'
    return app


KEPT = []      # (body object of an earlier accepted request that was spooled to disk, its bytes, where)


def check_kept(ctx, now):
    """A body object the application kept from an earlier request (to work on it later) still holds that request's bytes after later requests."""
    if not KEPT:
        return
    obj, data, where = KEPT[0]
    try:
        obj.seek(0)
        got = obj.read()
    except Exception as e:  # noqa
        got = f'<raised {e!r}>'
    ctx.count('kept_spooled_body_reread_after_a_later_request')
    if got != data:
        ctx.violation('kept-body-of-an-earlier-request-changed-by-a-later-one', f'kept from {where}; after {now}: {len(got) if isinstance(got, bytes) else got} bytes instead of {len(data)}'
                      + (f', starting {got[:30]!r}' if isinstance(got, bytes) else ''), {'unit': {'kind': 'note', 'kept_from': where, 'later_request': now}})
        del KEPT[:]


def cell(ctx, app, seen, S_target, L, B, framing, kind, grid=False):
    via_copy = kind == 'raw_copy'        # the handler reads the body through request.copy(): the same limits apply
    broken_mp = kind == 'raw_broken_mp'  # announced as a form upload, but no multipart document (text before the first delimiter, or no delimiter at all): the handler reads the raw body
    if via_copy:
        kind = 'raw'
        ctx.count('body_read_through_a_request_copy')
    closed_mp = kind in ('raw_closed_mp', 'mp_file_epilogue')     # a complete little form followed by a long epilogue (legal: RFC 2046), read raw or as a form
    wide = kind == 'mp_texts_wide'
    if wide:
        kind = 'mp_texts'
        ctx.count('multipart_text_outside_ascii')
    body, info = make_body('raw' if broken_mp or closed_mp else kind, S_target, wide=wide) if not wide else make_body('mp_texts', S_target, wide=True)
    if closed_mp:
        form, finfo = make_body('mp_file', 5)
        epilogue = body
        body = (form + epilogue)[:max(S_target, len(form))]
        info = dict(finfo)
        ctx.count('multipart_followed_by_a_long_epilogue')
        kind = 'raw' if kind == 'raw_closed_mp' else 'mp_file'
    if broken_mp:
        kind = 'raw'
        pre = (b'This is a multi-part message in MIME format.\r\n', b'x', b'\r\n\r\n--' + BOUNDARY.encode() + b'zz\r\n', b'--' + BOUNDARY.encode()[:-1])[S_target % 4]
        body = (pre + body)[:S_target]
        ctx.count('raw_body_announced_as_multipart_but_refused_by_the_scanner')
    S = len(body)
    ctype = {'raw': 'application/octet-stream', 'urlencoded': 'application/x-www-form-urlencoded'}.get(kind, f'multipart/form-data; boundary={BOUNDARY}')
    if broken_mp or closed_mp:
        ctype = f'multipart/form-data; boundary={BOUNDARY}'
    if framing == 'cl':
        st = RecStream(body + b'TAIL-NEVER-READ')
        env = make_environ('POST', ('/rawcopy' if via_copy else '/raw') if kind == 'raw' else '/forms', stream=st, content_length=S, content_type=ctype)
        table = None
        ctx.count('cl_cells')
    else:
        enc, table = chunk_table(body, framing)
        st = RecStream(enc)
        # a chunked request may carry a Content-Length as well (chunked framing wins): one that lies on the other side of
        # the limit must not decide anything
        extra = None
        sel = (S + int(L or 0) + B + framing) % 3
        if sel == 1:
            extra = {'CONTENT_LENGTH': '3'}
        elif sel == 2:
            extra = {'CONTENT_LENGTH': str(int(L or B) * 50 + 7)}
        if extra:
            ctx.count('chunked_with_misleading_content_length')
        env = make_environ('POST', ('/rawcopy' if via_copy else '/raw') if kind == 'raw' else '/forms', stream=st, content_length=None, chunked=True, content_type=ctype, extra=extra,
                           qs='again=1' if kind == 'urlencoded' and (S + B) % 2 else '')
        if kind == 'urlencoded' and (S + B) % 2:
            ctx.count('form_asked_again_after_a_swallowed_refusal')
        ctx.count('chunked_cells')
    seen.clear()
    r = call_app(app, env)
    consumed = st.consumed if table is None else payload_within(table, st.consumed)
    where = f'size={S} L={L} B={B} framing={"CL" if framing == "cl" else "chunks of %d" % framing} kind={kind}'
    wit = {'unit': {'kind': 'cell', 'S': S_target, 'L': L, 'B': B, 'framing': framing, 'ckind': 'raw_copy' if via_copy else 'raw_broken_mp' if broken_mp else ('raw_closed_mp' if kind == 'raw' else 'mp_file_epilogue') if closed_mp else 'mp_texts_wide' if wide else kind, 'how': HOW_OF.get(id(app), 'ctor')}}
    ctx.count('limits_given_to_' + HOW_OF.get(id(app), 'ctor'))
    check_kept(ctx, where)
    if kind == 'raw' and r.code == 200 and seen.get('type') != 'BytesIO' and seen.get('bodyobj') is not None and len(KEPT) < 1:
        KEPT.append((seen['bodyobj'], seen.get('body'), where))
    elif KEPT and ctx.counters.get('kept_spooled_body_reread_after_a_later_request', 0) % 40 == 39:
        del KEPT[:]        # keep another one now and then
    near = (L is not None and S > L - B - 1) or abs(S - B) <= 1 or S > B
    ctx.case(None if grid else (S, L, B, framing, kind), nontrivial=near)
    if r.escaped is not None or r.problems:
        ctx.violation('wsgi-contract-broken', f'{where}: {r.escaped!r} {r.problems}', wit)
        return
    if env.get('QUERY_STRING') == 'again=1':
        # the form was asked for twice (the first refusal swallowed): the second look reads on in the stream, so status and consumption are
        # not those of a single look - what stays is that text beyond the in-memory budget is never handed over
        if r.code == 200 and seen.get('forms') and (S > B or (L is not None and S > L)):
            ctx.violation('urlencoded-form-text-over-threshold-loaded', f'{where}: delivered {len(str(seen["forms"]))} chars at the second look (first look refused: {bool(seen.get("first_refused"))})', wit)
        return
    over = L is not None and S > L
    ctx.count('consumption_checked')
    if over:
        if r.code != 413:
            ctx.violation('body-over-max_body_size-not-answered-413', f'{where}: {r.status} {r.errors[-200:]}', wit)
        else:
            ctx.count('rejected_413')
            if S == L + 1:
                ctx.count('one_over_limit_rejected')
        if consumed > L + B:
            ctx.violation('read-more-than-limit-plus-one-buffer-before-giving-up', f'{where}: {consumed} payload bytes taken from the stream (limit+buffer = {L + B})', wit)
        ctx.note_max('max_payload_taken_beyond_limit', consumed - L)
        if 'body' in seen or seen.get('forms') or seen.get('files'):
            ctx.violation('over-limit-body-delivered-to-handler', where, wit)
        return
    if framing == 'cl' and st.consumed > S:
        ctx.violation('read-beyond-content-length', f'{where}: consumed {st.consumed}', wit)
    # within max_body_size
    if kind == 'raw':
        if r.code != 200:
            ctx.violation('body-within-limit-rejected', f'{where}: {r.status} {r.errors[-200:]}', wit)
            return
        ctx.count('accepted_within_limit')
        if L is not None and S == L:
            ctx.count('exactly_at_limit_accepted')
        ctx.count('content_compared')
        if seen.get('body') != body:
            ctx.violation('accepted-body-content-differs', f'{where}: got {len(seen.get("body", b""))} bytes', wit)
        _spool(ctx, seen, S, B, where, wit)
        return
    if kind == 'urlencoded':
        if S > B:
            if r.code == 200 and seen.get('forms'):
                ctx.violation('urlencoded-form-text-over-threshold-loaded', f'{where}: delivered {len(str(seen["forms"]))} chars', wit)
            else:
                ctx.count('urlencoded_refused_over_threshold')
                ctx.count(f'urlencoded_over_threshold_status_{r.code}')
            return
        if r.code != 200:
            ctx.violation('body-within-limit-rejected', f'{where}: {r.status} {r.errors[-200:]}', wit)
            return
        ctx.count('accepted_within_limit')
        if L is not None and S == L:
            ctx.count('exactly_at_limit_accepted')
        ctx.count('content_compared')
        if seen.get('forms') != info['forms']:
            ctx.violation('accepted-body-content-differs', f'{where}: forms {str(seen.get("forms"))[:80]}', wit)
        return
    data = info['data']
    V = len(data)
    if kind == 'mp_texts':
        got = seen.get('forms') or {}
        allthere = r.code == 200 and all(got.get(f't{i}') == pc.decode() for i, pc in enumerate(info['pieces']))
        if V > B + 0 and max(len(pc) for pc in info['pieces']) <= B:
            ctx.count('multipart_text_over_threshold_in_several_fields')
        if V > B:
            if allthere:
                ctx.violation('multipart-text-over-threshold-loaded-when-spread-over-several-fields',
                              f'{where}: {V} bytes of text in {len(info["pieces"])} fields all delivered (threshold {B})', wit)
            else:
                ctx.count('multipart_text_refused_over_threshold')
            return
        if info['hdr_len'] + V <= B:
            if not allthere:
                ctx.violation('body-within-limit-rejected', f'{where}: {r.status} forms {str(got)[:80]} {r.errors[-200:]}', wit)
                return
            ctx.count('accepted_within_limit')
            ctx.count('content_compared')
        else:
            ctx.count('multipart_text_between_bounds_either_accepted')
        return
    if kind == 'mp_text':
        if V > B:
            if r.code == 200 and 't' in (seen.get('forms') or {}):
                ctx.violation('multipart-text-field-over-threshold-loaded', f'{where}: field of {V} bytes delivered', wit)
            else:
                ctx.count('multipart_text_refused_over_threshold')
                ctx.count(f'multipart_text_over_threshold_status_{r.code}')
            return
        if info['hdr_len'] + V <= B:
            if r.code != 200:
                ctx.violation('body-within-limit-rejected', f'{where}: {r.status} {r.errors[-200:]}', wit)
                return
            ctx.count('accepted_within_limit')
            ctx.count('content_compared')
            if seen.get('forms') != {'t': data.decode()}:
                ctx.violation('accepted-body-content-differs', f'{where}: forms {str(seen.get("forms"))[:80]}', wit)
            _spool(ctx, seen, S, B, where, wit)
        else:
            ctx.count('multipart_text_between_bounds_either_accepted')
        return
    # file part: never loaded into the text budget, only its header block is
    if info['hdr_len'] <= B:
        if r.code != 200:
            ctx.violation('body-within-limit-rejected', f'{where}: {r.status} {r.errors[-200:]}', wit)
            return
        ctx.count('accepted_within_limit')
        ctx.count('content_compared')
        if seen.get('files') != {'f': data}:
            ctx.violation('accepted-body-content-differs', f'{where}: files {str(seen.get("files"))[:80]}', wit)
        if V > B:
            ctx.count('multipart_file_over_threshold_delivered')
        _spool(ctx, seen, S, B, where, wit)
    else:
        ctx.count('multipart_headers_over_threshold_either_accepted')


def _spool(ctx, seen, S, B, where, wit):
    t = seen.get('type')
    if S > B:
        if t == 'BytesIO':
            ctx.violation('body-over-memfile-threshold-held-in-memory', f'{where}: type {t}', wit)
        else:
            ctx.count('spooled_to_disk')
    elif t == 'BytesIO':
        ctx.count('kept_in_memory')
    else:
        ctx.count('spooled_although_within_threshold(observation)')


HDR_TEXT = len('Content-Disposition: form-data; name="t"')


def sizes_for(L, B):
    if L is None:
        s = {0, 1, B - 1, B, B + 1, 2 * B + 1, 10 * B}
    else:
        s = {0, 1, L - 1, L, L + 1, L + B - 1, L + B, L + B + 1, 10 * L, B, B + 1}
    # text fields that meet the in-memory budget exactly or with 1..4 bytes to spare (header block + value = B - k)
    s |= {B - HDR_TEXT - k for k in range(0, 6)}
    return sorted(x for x in s if x >= 0)


def plan(tier, seed):
    Ls = [None, 0, 1, 17, 100] + ([4096] if tier == 'thorough' else [])
    Bs = [1, 16, 100] + ([4096] if tier == 'thorough' else [])
    units = [{'kind': 'grid', 'L': L, 'B': B} for L in Ls for B in Bs]
    # seeded cells off the grid: odd limits and thresholds, irregular chunk sizes
    units += [{'kind': 'random', 'n': 150 if tier == 'quick' else 2500, 'sub': i} for i in range(4 if tier == 'quick' else 16)]
    return units


def random_unit(ctx, unit):
    rng = ctx.rng
    for i in range(unit['n']):
        L = rng.choice([None, rng.randint(0, 40), rng.randint(41, 700), rng.randint(701, 9000)])
        B = rng.choice([rng.randint(8, 40), rng.randint(41, 600), rng.randint(601, 5000), 102400])
        seen = {}
        if L is not None and rng.random() < 0.25:
            L = L + rng.choice([0.0, 0.5])          # a limit computed as a float (1.5 * 1024, 10000 / 4)
            ctx.count('float_limits')
        app = build_app(L, B, seen, rng.choice(HOWS))
        for _ in range(6):
            base = int(L) if L is not None else B
            S = max(0, rng.choice([base, base + 1, base - 1, base + B, base + B + 1, base + B - 1, rng.randint(0, 2 * base + 2 * B + 10), B, B + 1, 0]))
            if S > 60000:
                S = 60000
            framing = rng.choice(['cl', 'cl', rng.randint(1, 2 * B + 5), B, B + 1])
            if framing != 'cl' and (framing == 1 and S > 3000):
                framing = 7
            kind = rng.choice(['raw', 'raw', 'urlencoded', 'mp_text', 'mp_file', 'mp_texts', 'raw_copy', 'raw_broken_mp', 'raw_closed_mp', 'mp_file_epilogue', 'mp_texts_wide'])
            cell(ctx, app, seen, S, L, B, framing, kind)
        if i % 300 == 0:
            ctx.sample({'random_cell': {'max_body_size': L, 'max_memfile_size': B, 'last_size': S, 'framing': str(framing), 'kind': kind}})


def grid_unit(ctx, unit):
    L, B = unit['L'], unit['B']
    seen = {}
    app = build_app(L, B, seen, HOWS[((L or 0) + B) % len(HOWS)])
    framings = ['cl'] + sorted({1, max(1, B - 1), B, B + 1, 10 * B})
    if B < 8:
        # the chunk size line (digits + CRLF) must fit the configured buffer (anchored mechanism, see C05): no chunked cells here
        framings = ['cl']
    for S in sizes_for(L, B):
        for framing in framings:
            if framing == 1 and S > 20000:
                continue
            for kind in ('raw', 'urlencoded', 'mp_text', 'mp_file', 'mp_texts', 'raw_copy', 'raw_broken_mp', 'raw_closed_mp', 'mp_file_epilogue', 'mp_texts_wide'):
                cell(ctx, app, seen, S, L, B, framing, kind, grid=True)
    ctx.sample({'max_body_size': L, 'max_memfile_size': B, 'sizes': sizes_for(L, B), 'framings': [str(f) for f in framings],
                'content_kinds': ['raw', 'urlencoded', 'mp_text', 'mp_file', 'mp_texts']})


def run_unit(ctx, unit):
    if unit['kind'] == 'grid':
        grid_unit(ctx, unit)
    elif unit['kind'] == 'random':
        random_unit(ctx, unit)
    else:
        seen = {}
        app = build_app(unit['L'], unit['B'], seen, unit.get('how', 'ctor'))
        cell(ctx, app, seen, unit['S'], unit['L'], unit['B'], unit['framing'], unit['ckind'])
        print('  handler saw:', {k: (v if not isinstance(v, (bytes, dict)) else str(v)[:80]) for k, v in seen.items()})
