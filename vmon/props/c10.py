"""C10 - application objects in one process are independent of each other.

Marker-ownership monitor with a solo baseline: every application has handlers that show what
*their* app.request / app.response hold (values, not identities), before and after the other
application is used in some way - alternating calls, a nested call, Request.copy() followed by a
mutation of the copy, construction of a further application - on one thread and, under the
deterministic scheduler (vmon.sched), on two threads with every single preemption.  Each
application's final response must equal the one it gives when it is the only application.

Known defect and its classifier (counterfactual repair): ombott's thread-local properties pick
their store through a closure variable shared by all instances of the class, so whichever
Request/Response was initialised last owns every instance's properties.  When a scenario
deviates, the harness re-runs exactly that scenario with the property accessors rebound, from
outside, to each instance's own store.  If the scenario then holds, the deviation is exactly
this mechanism and carries the signature shared-store-follows-last-init:<arrangement>; if it
still deviates it is something else and is reported as a violation.  Arrangements that hold
today (alternating calls) are never excused.
"""
import os
from vmon.wsgi import make_environ, call_app
from vmon.sched import Scheduler, INF, Deadlock
from vmon.probes import OMBOTT_DIR

RULE = ('arrangements of 2-3 applications (incl. the module default application): alternating calls in every order, nested call (A handler calls B; '
        'depth 2 and 3; B same or other class of outcome: success, 404, crash), Request.copy() inside a handler then mutation of the copy, Response '
        'use after the nested call, an application constructed while another is serving or (with its own errors_map) between requests, request errors mapped through the configuration (oversized bodies, HTML and JSON clients, per-application 413 handlers) in strictly alternating order, attributes assigned on the config object of one application (debug, max_body_size, domain_map) and a custom reason phrase set on the response of one application, each followed by ordinary requests; on one thread, and on two '
        'threads (one application each) with every schedule of at most one preemption. Non-trivial = another application or request object was '
        'touched between two reads; distinct = distinct (arrangement, parameters, schedule).')
PYOPT = {'quick': 1, 'thorough': 1}     # one unit of every kind is also served by an interpreter started with -O (assert statements compiled out)
REQUIRED = ['units_run_under_python_-O', 'settings_arrangements', 'mapped_error_scenarios', 'scenarios_run', 'alternating_held', 'reads_compared', 'responses_compared', 'threaded_runs', 'counterfactual_reruns',
            'nested_scenarios', 'copy_scenarios', 'construct_scenarios', 'default_app_involved']
ASSUMPTIONS = ['what a handler is shown is observed by value (path, query, header, cookie, body, url_args; status/headers/cookies of the final response)',
               'the counterfactual repair (accessors rebound to per-instance stores) is harness-side and only used to attribute a deviation to the known mechanism']

PROPS = {'Request': ('environ', '_env_get'), 'Response': ('_status_line', '_status_code', '_headers', '_cookies', 'body')}


class RepairUnavailable(Exception):
    pass


def _own_store(obj):
    """The threading.local an instance carries for itself, whatever the attribute is called."""
    import threading
    names = []
    for klass in type(obj).__mro__:
        names.extend(getattr(klass, '__slots__', ()) or ())
    names.extend(getattr(obj, '__dict__', {}) or ())
    import inspect
    for n in names:
        if n.startswith('__'):
            continue
        # only real storage (slots, instance dict entries): a property of the same name is one of the accessors being repaired
        if isinstance(inspect.getattr_static(type(obj), n, None), property):
            continue
        try:
            v = object.__getattribute__(obj, n)
        except AttributeError:
            continue
        if isinstance(v, threading.local):
            return v
    raise RepairUnavailable(f'no per-instance thread-local store found on {type(obj).__name__}')


class Repair:
    """Counterfactual: make every thread-local property of Request/Response read the instance's own store.
    Nothing here depends on private names: the properties are the data descriptors of the two classes that are
    plain `property` objects defined by the class itself, the store is whatever threading.local the instance holds."""

    def __init__(self):
        from ombott.request_pkg.request import Request
        from ombott.response import Response
        self.classes = {'Request': Request, 'Response': Response}
        self.saved = {}

    def __enter__(self):
        for cname, cls in self.classes.items():
            props = [p for p in PROPS[cname] if isinstance(cls.__dict__.get(p), property)]
            if not props:
                raise RepairUnavailable(f'{cname} has none of the expected thread-local properties')
            for p in props:
                self.saved[(cname, p)] = cls.__dict__[p]

                def mk(p):
                    return property(lambda s: getattr(_own_store(s), p), lambda s, v: setattr(_own_store(s), p, v), lambda s: delattr(_own_store(s), p))
                setattr(cls, p, mk(p))
        return self

    def __exit__(self, *a):
        for (cname, p), v in self.saved.items():
            setattr(self.classes[cname], p, v)


def show(app, args=True):
    rq = app.request
    try:
        return (rq.path, rq.query_string, rq.headers.get('X-M'), rq.get_cookie('c'), rq.method, tuple(sorted((rq.url_args or {}).items())) if args else None, rq.url,
                tuple(sorted(rq.cookies.items())))
    except Exception as e:  # noqa
        return ('raised', type(e).__name__, str(e)[:80])


def env_for(name, i, path=None):
    m = f'{name}{i}'
    return make_environ('GET', path or f'/r/{m}', qs='m=' + m, headers={'X-M': m, 'Cookie': 'c=' + m, 'Host': m + '.example'})


def env_big(name, i, as_json=False):
    m = f'{name}{i}'
    h = {'X-M': m, 'Host': m + '.example'}
    if as_json:
        h['Accept'] = 'application/json'
    return make_environ('POST', '/up', qs='m=' + m * (1 + i % 3), body=b'x' * 500, headers=h)


def check_big(who, idx, resp, as_json):
    out = []
    m = f'{who}{idx}'
    if resp.escaped is not None:
        return [('response', who, 'escaped', repr(resp.escaped), None)]
    if resp.code != 413:
        return [('response', who, 'status-of-oversized-body', resp.status, 413)]
    cl = resp.header_all('Content-Length')
    if cl != [str(len(resp.body))]:
        out.append(('response', who, 'content-length', cl, len(resp.body)))
    ct = resp.header('Content-Type', '')
    if as_json != ct.startswith('application/json'):
        out.append(('response', who, 'content-type', ct, 'application/json' if as_json else 'text/html'))
    if not as_json and m.encode() not in resp.body:
        out.append(('response', who, 'body', resp.body[-120:], f'page showing the own URL with {m}'))
    return out


def expected_show(name, i, path=None):
    m = f'{name}{i}'
    p = path or f'/r/{m}'
    args = (('x', m),) if path is None else ()
    return (p, 'm=' + m, m, m, 'GET', args, f'http://{m}.example{p}?m={m}', (('c', m),))


class World:
    """Three applications (A, B and the module default application D) with scripted handlers."""

    def __init__(self):
        import ombott
        self.ombott = ombott
        self.reads = []
        self.script = {}
        D = ombott.default_app()
        for r in list(D.router.routes.values()):
            D.router.remove(r)
        D.setup({'max_body_size': 64})
        D.error_handlers.pop(413, None)
        self.apps = {'D': D}
        for n in ('A', 'B'):
            self.apps[n] = ombott.Ombott({'max_body_size': 64, 'debug': n == 'A'})     # A runs in debug mode, B and D do not
        for n, app in self.apps.items():
            self.install(n, app)

    def install(self, n, app):
        W = self

        def handler(x):
            sc = W.script.get(n, {})
            W.reads.append((n, 'start', show(app)))
            app.response.headers['X-Own-1'] = n
            app.response.set_cookie('own', n)
            app.response.status = {'A': 201, 'B': 202, 'D': 203}[n]
            act = sc.get('act')
            if act == 'nested':
                tgt = sc['target']
                r = call_app(W.apps[tgt], sc['env']())
                W.nested.append((tgt, r))
            elif act == 'copy':
                c = app.request.copy()
                W.reads.append((n, 'after-copy', show(app)))
                c['QUERY_STRING'] = 'changed=by-copy'
                c['HTTP_X_M'] = 'copy'
                c.environ['PATH_INFO'] = '/copy'
            elif act == 'construct':
                W.made.append(W.ombott.Ombott())
            elif act == 'crash':
                raise RuntimeError('scripted crash in ' + n)
            W.reads.append((n, 'end', show(app)))
            app.response.headers['X-Own-2'] = n
            return f'body-{n}-{x}'
        app.route('/r/<x>', 'GET', handler)

        def upload():
            return 'len=%d' % len(app.request.body.read())
        app.route('/up', 'POST', upload)

        def encoded(x):
            # text in pieces, encoded by the framework with the charset this application's handler chose
            app.response.content_type = 'text/plain; charset=' + CHARSETS[n]
            return iter(['caf\xe9 ', n, ' \xfc ', x]) if n != 'B' else ['caf\xe9 ', n, ' \xfc ', x]
        app.route('/enc/<x>', 'GET', encoded)

        def on_413(err):
            # what this application's response object shows while its own error is rendered
            W.reads.append((n, 'err413', ('headers', tuple(sorted(dict(app.response.headers).items())), app.response.status_code, app.request.query_string)))
            # ... and the error object its handler is given
            W.reads.append((n, 'err413-object', (err.status_line, err.traceback, repr(err.exception), tuple(sorted(dict(err.headers).items())))))
            return app.default_error_handler(err)
        app.error(413)(on_413)

        # hooks of this application only: each records what its own application shows while it runs
        def before():
            W.reads.append((n, 'before-hook', show(app, args=False)))

        def after():
            W.reads.append((n, 'after-hook', show(app, args=False)))
        for name, fn, attr in (('before_request', before, '_verif_before'), ('after_request', after, '_verif_after')):
            old = getattr(app, attr, None)      # the default application outlives a World
            if old is not None:
                app.remove_hook(name, old)
            app.add_hook(name, fn)
            setattr(app, attr, fn)

    def reset(self):
        self.reads = []
        self.nested = []
        self.made = []
        self.script = {}


CHARSETS = {'A': 'latin1', 'B': 'utf-8', 'D': 'utf-16-le'}


def check_enc(who, idx, resp):
    m = f'{who}{idx}'
    if resp.escaped is not None:
        return [('response', who, 'escaped', repr(resp.escaped), None)]
    exp = ('caf\xe9 ' + who + ' \xfc ' + m).encode(CHARSETS[who])
    out = []
    if resp.code != 200:
        out.append(('response', who, 'status-of-encoded-body', resp.status, 200))
    elif resp.body != exp:
        out.append(('response', who, 'body-encoding', resp.body, exp))
    if resp.header('Content-Type') != 'text/plain; charset=' + CHARSETS[who]:
        out.append(('response', who, 'content-type', resp.header('Content-Type'), CHARSETS[who]))
    return out


def resp_key(r):
    return (r.status, tuple(sorted(r.headers or ())), r.body, repr(r.escaped) if r.escaped is not None else None)


def solo_key(W, n, i):
    W.reset()
    return resp_key(call_app(W.apps[n], env_for(n, i)))


def scenarios():
    """-> list of (name, class, steps).  A step is (app, request index, script for the handlers)."""
    out = []
    names = ['A', 'B', 'D']
    # alternating (must hold)
    for order in (['A', 'B', 'A', 'B'], ['A', 'D', 'B', 'D', 'A'], ['D', 'A', 'D'], ['B', 'A', 'A', 'B', 'D', 'D']):
        out.append(('alternating:' + ''.join(order), 'alternating', [(n, k, {}) for k, n in enumerate(order)]))
    # nested
    for outer in names:
        for inner in names:
            if inner == outer:
                continue
            for what in ('ok', '404', 'crash'):
                out.append((f'nested:{outer}->{inner}:{what}', 'nested-call', [(outer, 1, {outer: {'act': 'nested', 'target': inner, 'inner': what}}), (outer, 2, {}), (inner, 3, {})]))
    out.append(('nested:A->B->D', 'nested-call', [('A', 1, {'A': {'act': 'nested', 'target': 'B', 'inner': 'ok'}, 'B': {'act': 'nested', 'target': 'D', 'inner': 'ok'}}), ('A', 2, {})]))
    for n in names:
        out.append((f'copy:{n}', 'request-copy', [(n, 1, {n: {'act': 'copy'}}), (n, 2, {})]))
        out.append((f'construct:{n}', 'app-constructed-while-serving', [(n, 1, {n: {'act': 'construct'}}), (n, 2, {})]))
    # request errors mapped through the configuration (shared default error objects): alternating, never nested
    out.append(('mapped-errors:alternating', 'alternating', [('A', 1, {'req': 'big'}), ('B', 2, {'req': 'big_json'}), ('A', 3, {'req': 'big'}), ('D', 4, {'req': 'big'}),
                                                               ('B', 5, {'req': 'big'}), ('D', 6, {'req': 'big_json'}), ('A', 7, {})]))
    out.append(('mapped-errors:after-ordinary-requests', 'alternating', [('A', 1, {}), ('B', 2, {'req': 'big'}), ('A', 3, {'req': 'big_json'}), ('B', 4, {}), ('A', 5, {'req': 'big'})]))
    # a Cookie header that is dropped as a whole (illegal name after a legal pair), then well-formed ones in the other applications
    out.append(('dropped-cookie-header:alternating', 'alternating', [('A', 1, {'req': 'badcookie'}), ('B', 2, {}), ('D', 3, {'req': 'badcookie'}), ('A', 4, {}), ('B', 5, {'req': 'badcookie'}),
                                                                       ('B', 6, {}), ('D', 7, {})]))
    # clients that send no Host header: the address comes from SERVER_NAME / SERVER_PORT, which differ between the applications' listeners
    out.append(('host-less-clients:alternating', 'alternating', [('A', 1, {'req': 'http10'}), ('B', 2, {'req': 'http10'}), ('A', 3, {'req': 'http10'}), ('D', 4, {'req': 'http10'}),
                                                                   ('B', 5, {}), ('D', 6, {'req': 'http10'})]))
    # text bodies given in pieces, every application with a charset of its own
    out.append(('encoded-bodies:alternating', 'alternating', [('D', 1, {'req': 'enc'}), ('A', 2, {'req': 'enc'}), ('B', 3, {'req': 'enc'}), ('D', 4, {'req': 'enc'}),
                                                                ('B', 5, {'req': 'enc'}), ('A', 6, {'req': 'enc'}), ('A', 7, {}), ('D', 8, {'req': 'enc'})]))
    out.append(('encoded-bodies:after-ordinary-requests', 'alternating', [('D', 1, {}), ('A', 2, {'req': 'enc'}), ('B', 3, {}), ('A', 4, {'req': 'enc'}), ('D', 5, {'req': 'enc'}),
                                                                        ('B', 6, {'req': 'enc'})]))
    # an application with its own errors_map constructed between two requests of another one
    out.append(('construct-with-own-errors-map-between-requests', 'alternating', [('A', 1, {'req': 'big'}), ('NEWCFG', 0, {}), ('A', 2, {'req': 'big'}), ('D', 3, {'req': 'big'}),
                                                                                  ('B', 4, {'req': 'big_json'}), ('A', 5, {})]))
    # an application constructed between requests (not while serving) must not matter either
    out.append(('construct-between-requests', 'alternating', [('A', 1, {}), ('NEW', 0, {}), ('A', 2, {}), ('B', 3, {})]))
    return out


def run_scenario(W, steps):
    """-> (list of deviations, observations count)"""
    devs = []
    nobs = 0
    for app_name, i, script in steps:
        if app_name == 'NEW':
            W.made = getattr(W, 'made', [])
            W.made.append(W.ombott.Ombott())
            continue
        if app_name == 'NEWCFG':
            from ombott.request_pkg.errors import BodySizeError
            W.keep = getattr(W, 'keep', [])
            W.keep.append(W.ombott.Ombott({'max_body_size': 8, 'errors_map': {BodySizeError: W.ombott.HTTPError(400, 'mapped by another application')}}))
            continue
        if script.get('req') == 'http10':
            from vmon.wsgi import apply_flavour
            W.reset()
            env = apply_flavour(env_for(app_name, i), 'http10')
            r = call_app(W.apps[app_name], env)
            nobs += 1
            devs.extend(check_response(W, app_name, i, r, {}))
            for who, when, val in W.reads:
                nobs += 1
                e = exp_read(who, i, when)
                if who != app_name or val != e:
                    devs.append(('read', who, when, val, e))
            continue
        if script.get('req') == 'badcookie':
            W.reset()
            m = f'{app_name}{i}'
            env = env_for(app_name, i)
            env['HTTP_COOKIE'] = f'session={m}-secret; b@d=1; c={m}'
            r = call_app(W.apps[app_name], env)
            nobs += 1
            devs.extend(check_response(W, app_name, i, r, {}))
            for who, when, val in W.reads:
                nobs += 1
                e = exp_read(who, i, when)
                e = e[:3] + (None,) + e[4:7] + ((),)       # the header is dropped as a whole: no cookie at all
                if who != app_name or val != e:
                    devs.append(('read', who, when, val, e))
            continue
        if script.get('req') == 'enc':
            W.reset()
            m = f'{app_name}{i}'
            r = call_app(W.apps[app_name], env_for(app_name, i, path='/enc/' + m))
            nobs += 1
            devs.extend(check_enc(app_name, i, r))
            for who, when, val in W.reads:
                nobs += 1
                if who != app_name or val != exp_read(who, i, when, path='/enc/' + m):
                    devs.append(('read', who, when, val, exp_read(who, i, when, path='/enc/' + m)))
            continue
        if script.get('req') in ('big', 'big_json'):
            W.reset()
            as_json = script['req'] == 'big_json'
            r = call_app(W.apps[app_name], env_big(app_name, i, as_json))
            nobs += 1
            devs.extend(check_big(app_name, i, r, as_json))
            m = f'{app_name}{i}'
            qs = 'm=' + m * (1 + i % 3)
            for who, when, val in W.reads:
                nobs += 1
                exp = ('headers', (), 413, qs)
                if when == 'err413-object':
                    exp = ('413 Request Entity Too Large', None, 'None', ())
                elif when.endswith('-hook'):
                    exp = ('/up', qs, m, None, 'POST', None, f'http://{m}.example/up?{qs}', ())
                if who != app_name or val != exp:
                    devs.append(('read', who, when, val, exp))
            if not any(when == 'err413' for _, when, _ in W.reads) and r.code == 413:
                devs.append(('read', app_name, 'err413', 'error handler of this application did not run', None))
            continue
        solo = solo_key(W, app_name, i) if False else None
        W.reset()
        sc = {}
        for n, s in script.items():
            s = dict(s)
            if s.get('act') == 'nested':
                inner = s.get('inner', 'ok')
                tgt = s['target']
                if inner == 'ok':
                    s['env'] = (lambda tgt=tgt, i=i: env_for(tgt, i + 50))
                elif inner == '404':
                    s['env'] = (lambda tgt=tgt, i=i: env_for(tgt, i + 50, path='/missing'))
                else:
                    s['env'] = (lambda tgt=tgt, i=i: env_for(tgt, i + 50))
            sc[n] = s
        # crash variant: the innermost target crashes
        for n, s in script.items():
            if s.get('inner') == 'crash':
                sc.setdefault(s['target'], {})
                sc[s['target']] = dict(sc[s['target']], act='crash') if sc[s['target']].get('act') is None else sc[s['target']]
        W.script = sc
        r = call_app(W.apps[app_name], env_for(app_name, i))
        missing = {s['target'] for s in script.values() if s.get('inner') == '404'}
        for who, when, val in W.reads:
            nobs += 1
            idx = i if who == app_name else i + 50
            e = exp_read(who, idx, when, path='/missing' if who in missing and who != app_name else None)
            if val != e:
                devs.append(('read', who, when, val, e))
        ran = {(who, when) for who, when, _ in W.reads if when.endswith('-hook')}
        for who in [app_name] + [tgt for tgt, _ in W.nested]:
            for when in ('before-hook', 'after-hook'):
                if (who, when) not in ran:
                    devs.append(('read', who, when, 'hook of this application did not run', None))
        # final responses: the outer one and the nested ones
        checks = [(app_name, i, r)] + [(tgt, i + 50, nr) for tgt, nr in W.nested]
        for who, idx, resp in checks:
            nobs += 1
            devs.extend(check_response(W, who, idx, resp, sc))
    return devs, nobs


def check_response(W, who, idx, resp, sc):
    """What the response of application `who` must look like, from the script alone."""
    out = []
    m = f'{who}{idx}'
    path_missing = resp.env['PATH_INFO'] == '/missing'
    crashed = sc.get(who, {}).get('act') == 'crash'
    if resp.escaped is not None:
        return [('response', who, 'escaped', repr(resp.escaped), None)]
    if path_missing:
        if resp.code != 404:
            out.append(('response', who, 'status', resp.status, '404'))
        return out
    if crashed:
        if resp.code != 500:
            out.append(('response', who, 'status', resp.status, '500'))
        if any(k in ('X-Own-2',) for k, _ in resp.headers):
            out.append(('response', who, 'headers', resp.headers, 'no X-Own-2 on a crash'))
        return out
    code = {'A': 201, 'B': 202, 'D': 203}[who]
    if resp.code != code:
        out.append(('response', who, 'status', resp.status, code))
    h = dict(resp.headers)
    if h.get('X-Own-1') != who or h.get('X-Own-2') != who:
        out.append(('response', who, 'headers', sorted(resp.headers), f'X-Own-1/2 = {who}'))
    foreign = [v for k, v in resp.headers if k.startswith('X-Own') and v != who]
    if foreign:
        out.append(('response', who, 'foreign-header', sorted(resp.headers), None))
    cookies = [v for k, v in resp.headers if k == 'Set-Cookie']
    if cookies != [f'own={who}']:
        out.append(('response', who, 'cookies', cookies, [f'own={who}']))
    if resp.body != f'body-{who}-{m}'.encode():
        out.append(('response', who, 'body', resp.body, f'body-{who}-{m}'))
    return out


def exp_read(who, idx, when, path=None):
    e = expected_show(who, idx, path=path)
    if when.endswith('-hook'):
        e = e[:5] + (None,) + e[6:]
    return e


def single_unit(ctx, unit):
    W = World()
    for name, klass, steps in scenarios():
        ctx.count('scenarios_run')
        if klass == 'nested-call':
            ctx.count('nested_scenarios')
        elif klass == 'request-copy':
            ctx.count('copy_scenarios')
        elif klass == 'app-constructed-while-serving':
            ctx.count('construct_scenarios')
        if any(s[0] == 'D' or 'D' in str(s[2]) for s in steps):
            ctx.count('default_app_involved')
        if any('req' in s[2] for s in steps):
            ctx.count('mapped_error_scenarios')
        devs, nobs = run_scenario(W, steps)
        ctx.count('reads_compared', nobs)
        ctx.count('responses_compared', len(steps))
        ctx.case(('scenario', name), nontrivial=klass != 'alternating' or len(steps) > 2)
        wit = {'unit': {'kind': 'scenario', 'name': name}}
        if not devs:
            if klass == 'alternating':
                ctx.count('alternating_held')
            else:
                ctx.count('known_bad_arrangement_held')
            continue
        d0 = devs[0]
        desc = f'{name}: {len(devs)} deviation(s); first: {d0[0]} of {d0[1]} ({d0[2]}): shown {str(d0[3])[:160]} expected {str(d0[4])[:160]}'
        if klass == 'alternating':
            ctx.violation(f'applications-interfere:{klass}:{d0[0]}-{d0[2]}', desc, wit)
            continue
        # counterfactual repair
        ctx.count('counterfactual_reruns')
        try:
            with Repair():
                W2 = World()
                devs2, _ = run_scenario(W2, steps)
        except RepairUnavailable as e:
            ctx.set_inconclusive(f'{name} deviates and the counterfactual repair that attributes it to the known mechanism is unavailable: {e}')
            W = World()
            continue
        # the default application's objects were re-created? no: World() reuses the module default app; restore handlers for W
        W = World()
        if not devs2:
            ctx.violation(f'shared-store-follows-last-init:{klass}', desc, wit)
        else:
            e0 = devs2[0]
            ctx.violation(f'applications-interfere-beyond-the-shared-store:{klass}:{e0[0]}-{e0[2]}',
                          f'{name}: still deviates with per-instance stores: {e0[0]} of {e0[1]} ({e0[2]}): shown {str(e0[3])[:160]} expected {str(e0[4])[:160]}', wit)
    ctx.sample({'scenarios': [n for n, _, _ in scenarios()][:12], 'total': len(scenarios())})


def threaded_unit(ctx, unit):
    """Two threads, one application each, every schedule with at most one preemption."""
    W = World()
    sched = Scheduler(files=[os.path.abspath(__file__)], dirs=[OMBOTT_DIR]).install()
    try:
        pairs = unit['pairs']
        for a, b in pairs:
            def jobs(Wx):
                def ja():
                    return call_app(Wx.apps[a], env_for(a, 1))

                def jb():
                    return call_app(Wx.apps[b], env_for(b, 2))
                return [ja, jb]
            for _ in range(2):
                W.reset()
                res, info = sched.run(jobs(W), [])
            na, nb = info['steps']
            if a in 'D' or b in 'D':
                ctx.count('default_app_involved')
            known_seen = 0
            for first, n in ((0, na), (1, nb)):
                for k in range(0, n + 1, unit.get('stride', 1)):
                    sch = [(first, k), (1 - first, INF), (first, INF)]
                    W.reset()
                    try:
                        res, info = sched.run(jobs(W), sch)
                    except Deadlock as e:
                        ctx.set_inconclusive(str(e))
                        return
                    ctx.count('threaded_runs')
                    ctx.case(None, nontrivial=0 < k < n)
                    devs = []
                    for t, (who, idx) in enumerate(((a, 1), (b, 2))):
                        if res[t][0] != 'ok':
                            devs.append(('thread', who, 'exception', repr(res[t][1]), None))
                        else:
                            ctx.count('responses_compared')
                            devs.extend(check_response(W, who, idx, res[t][1], {}))
                    for who, when, val in W.reads:
                        ctx.count('reads_compared')
                        e = exp_read(who, 1 if who == a else 2, when)
                        if val != e:
                            devs.append(('read', who, when, val, e))
                    if not devs:
                        continue
                    wit = {'unit': {'kind': 'threaded1', 'pair': [a, b], 'schedule': [list(s) for s in sch]}}
                    d0 = devs[0]
                    desc = f'apps {a},{b} on two threads, schedule {sch}: {d0[0]} of {d0[1]} ({d0[2]}): shown {str(d0[3])[:160]} expected {str(d0[4])[:160]}'
                    if a == b:
                        ctx.violation(f'same-application-threads-interfere:{d0[0]}-{d0[2]}', desc, wit)
                        continue
                    ctx.count('counterfactual_reruns')
                    try:
                        rp = Repair().__enter__()
                    except RepairUnavailable as e:
                        ctx.set_inconclusive(f'threads deviate and the counterfactual repair is unavailable: {e}')
                        return
                    rp.__exit__()
                    with Repair():
                        W.reset()
                        res2, _ = sched.run(jobs(W), sch)
                        devs2 = []
                        for t, (who, idx) in enumerate(((a, 1), (b, 2))):
                            if res2[t][0] != 'ok':
                                devs2.append(('thread', who, 'exception', repr(res2[t][1]), None))
                            else:
                                devs2.extend(check_response(W, who, idx, res2[t][1], {}))
                        for who, when, val in W.reads:
                            if val != exp_read(who, 1 if who == a else 2, when):
                                devs2.append(('read', who, when, val, None))
                    if not devs2:
                        known_seen += 1
                        ctx.violation('shared-store-follows-last-init:other-app-on-another-thread', desc, wit)
                    else:
                        e0 = devs2[0]
                        ctx.violation(f'applications-interfere-beyond-the-shared-store:threads:{e0[0]}-{e0[2]}',
                                      desc + f' | still deviates with per-instance stores: {str(e0)[:200]}', wit)
            ctx.sample({'pair': [a, b], 'statements': [na, nb], 'schedules_with_known_mechanism': known_seen})
    finally:
        sched.uninstall()


def settings_unit(ctx, unit):
    """Per-application settings and per-response status text: what one application is told (attributes assigned on its
    config object, a custom reason phrase on its response) must not show in another application - alternating,
    non-nested calls on one thread.  Expectations are what the same application answers when it is alone."""
    import ombott
    from ombott import HTTPResponse

    def make(cfg=None):
        app = ombott.Ombott(cfg) if cfg is not None else ombott.Ombott()
        st = {}

        @app.route('/crash')
        def crash():
            raise RuntimeError('secret-detail-' + app.request.query_string)

        @app.route('/where/<x>')
        def where(x):
            return 'where:' + app.request.path

        @app.route('/up', method='POST')
        def up():
            return 'len=%d' % len(app.request.body.read())

        @app.route('/mutate')
        def mutate():
            # a handler that edits what the framework parsed for it, in place
            for src in (app.request.query, app.request.forms):
                v = src.get('tag')
                if isinstance(v, list):
                    v.append('mutated-by-another-application')
                    v.sort()
            app.request.cookies.decode('latin1')
            app.request.cookies.decode('cp1252') if False else None
            return 'mutated'
        app.route('/mutate', 'POST', mutate)

        @app.route('/show', method=['GET', 'POST'])
        def show_():
            rq = app.request
            c = rq.cookies
            return repr((rq.query.get('tag'), rq.forms.get('tag'), rq.params.get('tag'), c.getunicode('n'), c.n, c.decode().get('n')))

        @app.route('/status')
        def status():
            how = app.request.query.get('how')
            code = int(app.request.query.get('code', '475'))
            if how == 'phrase':
                app.response.status = '%d Tenant Quota Exceeded' % code
            elif how == 'int':
                app.response.status = code
            elif how == 'raise':
                raise HTTPResponse('late', code + 10)
            elif how == 'phrase_raise':
                app.response.status = '%d Another Custom Phrase' % (code + 10)
            return 'status-set'
        return app

    def observe(app, tag, code=470):
        # `code` is an unregistered status code that nobody in this process has used before this arrangement
        out = {}
        r = call_app(app, make_environ('GET', '/crash', qs='q=' + tag))
        out['crash'] = (r.status, b'secret-detail' in r.body)
        r = call_app(app, make_environ('GET', '/where/' + tag, headers={'Host': 'tenant.example'}))
        out['where'] = (r.status, r.body)
        r = call_app(app, make_environ('POST', '/up', body=b'x' * 300))
        out['up'] = (r.status, r.body)
        cookie = 'n="' + 'Zoë'.encode('utf8').decode('latin1') + '"'
        r = call_app(app, make_environ('POST', '/show', qs='tag=b&tag=a&x=1', body=b'tag=z&tag=y', content_type='application/x-www-form-urlencoded', headers={'Cookie': cookie}))
        out['show'] = (r.status, r.body)
        r = call_app(app, make_environ('GET', '/status', qs='how=int&code=%d' % code))
        out['status_int'] = r.status.replace(str(code), 'NNN')
        r = call_app(app, make_environ('GET', '/status', qs='how=raise&code=%d' % code))
        out['status_raise'] = r.status.replace(str(code + 10), 'MMM')
        return out

    # what an application with default settings answers when nobody else has been told anything
    solo = observe(make(), 'solo')
    expect = {'crash': ('500 Internal Server Error', False), 'up': ('200 OK', b'len=300'), 'show': solo['show'], 'status_int': 'NNN Unknown', 'status_raise': 'MMM Unknown'}
    for k, v in expect.items():
        if solo[k] != v:
            ctx.violation('harness-solo-expectation-differs', f'{k}: {solo[k]} vs {v}', None)
            return
    # redirect() reads the module-level default application's objects: a redirect raised in another application
    # must still be built from that application's own response (its headers and cookies so far) and nothing else
    D = ombott.default_app()
    for r in list(D.router.routes.values()):
        D.router.remove(r)

    def d_handler():
        D.response.headers['X-Default-App'] = 'header-of-the-default-application'
        D.response.set_cookie('dcookie', 'of-default')
        return 'x' * 33
    D.route('/d', 'GET', d_handler)
    B = ombott.Ombott()

    def go():
        B.response.headers['X-Mine'] = 'mine'
        B.response.set_cookie('login', 'ok')
        ombott.redirect('/home?next=1')
    B.route('/go', 'GET', go)
    for rep in range(2):
        call_app(D, make_environ('GET', '/d'))
        r = call_app(B, make_environ('GET', '/go', headers={'Host': 'b.example'}, extra={'SERVER_PROTOCOL': 'HTTP/1.1'}))      # 303 is what redirect() answers to HTTP/1.1
        ctx.count('settings_arrangements')
        ctx.count('reads_compared')
        ctx.case(('redirect-in-non-default-app', rep), nontrivial=True)
        hs = sorted(r.headers or [])
        exp = sorted([('X-Mine', 'mine'), ('Location', 'http://b.example/home?next=1'), ('Content-Length', '0'), ('Content-Type', 'text/html; charset=UTF-8'), ('Set-Cookie', 'login=ok')])
        if r.code != 303 or hs != exp or r.body:
            ctx.violation('applications-interfere:redirect-in-another-application-carries-foreign-response-state',
                          f'default application served a request, then another application redirects: {r.status} {hs} (expected 303 {exp})',
                          {'unit': {'kind': 'note', 'what': 'redirect after the default application served a request'}})
    arrangements = []
    for who in ('default-config app', 'explicit-config app', 'module default app', "app built from the victim's config object"):
        for what in ('debug', 'max_body_size', 'domain_map', 'status-phrase', 'in-place-mutation-of-parsed-values'):
            arrangements.append((who, what))
    for ai, (who, what) in enumerate(arrangements):
        code = 611 + ai          # unregistered codes, also ten above (code + 10 is used as well)
        other = make() if who != 'explicit-config app' else make({'max_body_size': None})
        victim_a = make()                       # built with default config as well
        if who == "app built from the victim's config object":
            other = make(victim_a.config)       # Ombott(a.config): a copy of the settings, not the same settings object
        victim_b = ombott.default_app() if who == 'module default app' else make({'debug': False})
        if who == 'module default app':
            for r in list(victim_b.router.routes.values()):
                victim_b.router.remove(r)
            victim_b.setup({})
            src = make()
            for rule, route in src.router.routes.items():
                pass
            # give the default application the same routes
            tmp = make()
            for pattern, route in tmp.router.routes.items():
                for m, rm in route.methods.items():
                    victim_b.route(route.rule, m, rm.handler)
        if what == 'debug':
            other.config.debug = True
        elif what == 'max_body_size':
            other.config.max_body_size = 5
        elif what == 'domain_map':
            other.config.domain_map = lambda host: 't1'
            other.config.app_name_header = 'HTTP_X_APP_NAME'
        elif what == 'in-place-mutation-of-parsed-values':
            cookie = 'n="' + 'Zoë'.encode('utf8').decode('latin1') + '"'
            call_app(other, make_environ('POST', '/mutate', qs='tag=b&tag=a&x=1', body=b'tag=z&tag=y', content_type='application/x-www-form-urlencoded', headers={'Cookie': cookie}))
        else:
            r = call_app(other, make_environ('GET', '/status', qs='how=phrase&code=%d' % code))
            r2 = call_app(other, make_environ('GET', '/status', qs='how=phrase_raise&code=%d' % code))
            if r.status != '%d Tenant Quota Exceeded' % code:
                ctx.violation('custom-reason-phrase-not-applied-to-own-response', r.status, None)
        call_app(other, make_environ('GET', '/where/o'))
        ctx.count('settings_arrangements')
        ctx.case(('settings', who, what), nontrivial=True)
        for vname, victim in (('application built with default config', victim_a),):
            obs = observe(victim, 'v', code)
            for k, v in expect.items():
                ctx.count('reads_compared')
                if obs[k] != v:
                    ctx.violation(f'applications-interfere:settings:{what}->{k}', f'after {what} was set on another ({who}), the {vname} answers {k}: {obs[k]} (alone: {v})',
                                  {'unit': {'kind': 'note', 'who': who, 'what': what, 'observed': str(obs[k])}})
            if obs['where'] != ('200 OK', b'where:/where/v'):
                ctx.violation(f'applications-interfere:settings:{what}->path', f'after {what} was set on another ({who}): {obs["where"]}', {'unit': {'kind': 'note', 'who': who, 'what': what}})
    ctx.sample({'arrangements': arrangements})


_FIRST_PAGE = r'''
import io, sys
import ombott
order = sys.argv[1].split(',')
apps = {}
for name, debug in (('quiet', False), ('talkative', True), ('quiet2', None)):
    a = ombott.Ombott({'debug': debug})
    a.route('/crash', 'GET', lambda name=name: 1 / 0)
    apps[name] = a
def ask(app, path):
    out = {}
    env = {'REQUEST_METHOD': 'GET', 'PATH_INFO': path, 'QUERY_STRING': '', 'SERVER_NAME': 'h', 'SERVER_PORT': '80', 'wsgi.url_scheme': 'http',
           'SERVER_PROTOCOL': 'HTTP/1.1', 'wsgi.input': io.BytesIO(), 'wsgi.errors': io.StringIO(), 'wsgi.version': (1, 0),
           'wsgi.multithread': True, 'wsgi.multiprocess': False, 'wsgi.run_once': False}
    body = b''.join(app(env, lambda s, h, e=None: out.update(status=s)))
    return out['status'], body
for step in order:
    name, path = step.split(':')
    st, body = ask(apps[name], path)
    import re
    print(step, st, 'ZeroDivisionError' in body.decode('utf8', 'replace'), 'Traceback' in body.decode('utf8', 'replace'), len(re.sub(rb'0x[0-9a-f]+|line \d+', b'', body)))
'''


def first_page_unit(ctx, unit):
    """Which application renders the *first* error page of a process (and in which mode) is nobody else's business: every order of first
    pages is run in a process of its own, and each application's page is compared with the one it renders when it is the first."""
    import subprocess
    import sys
    from vmon.probes import REPO
    steps = ['quiet:/nothing', 'quiet:/crash', 'talkative:/crash', 'talkative:/nothing', 'quiet2:/crash']

    def run(order):
        r = subprocess.run([sys.executable, '-c', _FIRST_PAGE, ','.join(order)], capture_output=True, text=True, timeout=120,
                           env=dict(os.environ, PYTHONPATH=REPO, PYTHONDONTWRITEBYTECODE='1'))
        if r.returncode != 0:
            raise AssertionError('harness: first-page child failed: ' + r.stderr[-400:])
        return dict(ln.split(' ', 1) for ln in r.stdout.strip().splitlines())
    alone = {}
    for st in steps:
        alone.update(run([st]))
    import itertools as _it
    for a, b in _it.permutations(steps, 2):
        got = run([a, b])
        ctx.case(('first-page', a, b), nontrivial=True)
        ctx.count('orders_of_first_error_pages_in_a_fresh_process')
        if got[b] != alone[b]:
            ctx.violation('applications-interfere:first-error-page-of-the-process', f'{b} after {a}: status / shows exception / shows traceback / size = {got[b]}; as the first page of a process: {alone[b]}',
                          {'unit': {'kind': 'note', 'first': a, 'then': b}})
    ctx.sample({'steps': steps, 'alone': alone})


def plan(tier, seed):
    if tier == 'quick':
        return [{'kind': 'single'}, {'kind': 'settings'}, {'kind': 'first_page'}, {'kind': 'threaded', 'pairs': [('A', 'B')], 'stride': 1}, {'kind': 'threaded', 'pairs': [('D', 'A')], 'stride': 2},
                {'kind': 'threaded', 'pairs': [('B', 'D')], 'stride': 3}]
    pairs = [('A', 'B'), ('B', 'A'), ('D', 'A'), ('A', 'D'), ('B', 'D'), ('D', 'B')]   # one application on several threads is C08
    return [{'kind': 'single'}, {'kind': 'settings'}, {'kind': 'first_page'}] + [{'kind': 'threaded', 'pairs': [p], 'stride': 1} for p in pairs]


def run_unit(ctx, unit):
    k = unit['kind']
    if k == 'first_page':
        return first_page_unit(ctx, unit)
    if k == 'single':
        single_unit(ctx, unit)
    elif k == 'threaded':
        threaded_unit(ctx, unit)
    elif k == 'settings':
        settings_unit(ctx, unit)
    elif k == 'scenario':
        W = World()
        for name, klass, steps in scenarios():
            if name == unit['name']:
                devs, _ = run_scenario(W, steps)
                for d in devs:
                    print('  deviation:', str(d)[:300])
                if devs:
                    ctx.violation('replayed', f'{len(devs)} deviations', None)
    else:
        print('  witness:', unit)
