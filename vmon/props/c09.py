"""C09 - each response depends on its own request only; retained state is bounded.

(a) History independence (metamorphic): every request kind is first served by a fresh
    application (baseline); then one application serves histories on one thread and the
    complete response of request k (status, every header and cookie, body) must equal the
    baseline of the same request.  All ordered pairs (quick) / triples (thorough) of request
    kinds are enumerated, plus random longer histories.
(b) Bounded retention: weak references to every per-request object the harness creates
    (environ - a dict subclass -, input stream, handler-created marker objects, returned
    generators); after N requests and gc.collect() the number still alive must be a small
    constant and must not grow between N and 10N; and the memory still allocated (tracemalloc) after N and
    10N requests with all-distinct markers must not grow by more than 64 bytes per additional request.
"""
import gc
import io
import weakref
import itertools
import tracemalloc
from vmon.wsgi import make_environ, call_app, RecStream, check_framing

RULE = ('request kinds {success with cookie+header+status, plain success, raised response with cookie, abort, 404, 404 as JSON, 405, undecodable '
        'path, malformed chunked body, malformed multipart, oversized body, handler crash, HEAD, generator body, form post, signed cookie} in two '
        'marker variants each; histories = all ordered pairs (quick) or triples (thorough) of kind-variants plus random histories of length 20-60; '
        'retention runs of N and 10N requests per kind mix. Non-trivial = the history has an earlier request of a different kind or variant; '
        'distinct = distinct history.')
PYOPT = {'quick': 1, 'thorough': 1}     # one unit of every kind is also served by an interpreter started with -O (assert statements compiled out)
REQUIRED = ['units_run_under_python_-O', 'growth_runs', 'baselines', 'history_requests_compared', 'ordered_pairs_covered', 'retention_runs', 'weakrefs_tracked', 'kinds_in_histories',
            'error_after_success', 'success_after_error', 'undecodable_path_after_cookie', 'shared_error_instances_raised']
EXHAUSTIVE = {'quick': True, 'thorough': True, 'quick_note': 'all ordered pairs of the kind-variants', 'thorough_note': 'all ordered triples of the kind-variants'}
ASSUMPTIONS = ['the Date header (none is emitted by the framework) and object addresses are not part of a response',
               'the objects of the most recent request may stay alive (the application object holds its current request)']

MAXBODY = 390


class Env(dict):
    """dict subclass so that the environ can be weakly referenced"""
    __slots__ = ('__weakref__',)


class TrackedFile(io.BytesIO):
    pass


def session_cookie(m):
    from ombott.common_helpers import cookie_encode
    return 'sess="' + cookie_encode(('sess', {'n': 1, 'log': ['start-' + m]}), 'k').decode() + '"'


class Marker:
    __slots__ = ('v', '__weakref__')

    def __init__(self, v):
        self.v = v


def build_app(track=None):
    import ombott
    from ombott import HTTPResponse, HTTPError
    app = ombott.Ombott({'max_body_size': MAXBODY, 'max_memfile_size': 150})

    def note(obj):
        if track is not None:
            track.append(weakref.ref(obj))
        return obj

    @app.route('/ok', method=['GET', 'HEAD'])
    def ok():
        m = app.request.query.get('m', 'none')
        note(Marker(m))
        app.response.set_cookie('c' + m, m, path='/')
        app.response.headers['X-Marker'] = m
        app.response.headers.append('X-Multi', m)
        app.response.status = 201
        app.response.content_type = 'text/x-' + m
        return 'ok-' + m + '|' + app.request.url + '|' + app.request.script_name + '|' + app.request.fullpath

    @app.route('/plain')
    def plain():
        return 'plain'

    @app.route('/raise')
    def raise_():
        m = app.request.query.get('m', 'none')
        r = HTTPResponse('raised-' + m, 202, {'X-Raised': m})
        r.set_cookie('r' + m, m)
        raise r

    @app.route('/abort')
    def abort_():
        app.response.headers['X-Before-Abort'] = app.request.query.get('m', '')
        ombott.abort(403, 'forbidden ' + app.request.query.get('m', ''))

    @app.route('/crash')
    def crash():
        app.response.set_cookie('crash', app.request.query.get('m', ''))
        note(Marker('crash'))
        raise RuntimeError('boom ' + app.request.query.get('m', ''))

    @app.route('/gen')
    def gen():
        m = app.request.query.get('m', 'none')

        def g():
            yield 'g1-' + m
            yield 'g2'
        it = g()
        note(it)
        return it

    @app.route('/body', method='POST')
    def body():
        return 'len=%d' % len(app.request.body.read())

    @app.route('/form', method='POST')
    def form():
        return 'form=' + ','.join('%s:%s' % kv for kv in sorted(app.request.forms.items()))

    @app.route('/gencookie')
    def gencookie():
        # an iterable body, a cookie and a status, but no header of the handler's own
        m = app.request.query.get('m', 'none')
        app.response.set_cookie('g' + m, m)
        app.response.status = 202
        return iter(['gc-', m])

    @app.route('/json', method='POST')
    def json_():
        return 'json=%r' % (app.request.json,)

    @app.route('/file')
    def file_():
        # a file-like body: handed to the server's file wrapper when the server offers one
        m = app.request.query.get('m', 'none')
        f = note(TrackedFile(('file-' + m + '|') .encode() * 20))
        app.response.headers['X-File'] = m
        return f

    @app.route('/echo', method='POST')
    def echo():
        return app.request.body.read()

    @app.route('/cookies')
    def cookies():
        rq = app.request
        return 'cookies=%r' % ((sorted(rq.cookies.items()), rq.get_cookie('sid'), rq.get_cookie('theme')),)

    # a route hook that hands the handler an argument when the visitor is known
    def greet_hook(prefix):
        who = app.request.get_cookie('user')
        if who:
            app.request.url_args['user'] = who
    app.on_route('/greet', greet_hook)

    @app.route('/greet')
    def greet(user='stranger'):
        return 'hello ' + user

    @app.route('/files/<:re:.+>')
    def anon_files(*a):
        return 'file listing'

    kept = {}

    @app.route('/bye')
    def bye():
        # a response prepared once (a copy of the application's response at that moment) and raised again and again
        if 'resp' not in kept:
            app.response.delete_cookie('sid', path='/')
            app.response.headers['X-Bye'] = 'prepared'
            kept['resp'] = app.response.copy(cls=HTTPResponse)
            kept['resp'].status = 303
            kept['resp'].headers['Location'] = '/login'
        raise kept['resp']

    @app.route('/logout')
    def logout():
        app.response.delete_cookie('sid', path='/')
        return 'bye'

    @app.route('/relogin')
    def relogin():
        m = app.request.query.get('m', 'none')
        app.response.delete_cookie('sid', path='/')
        app.response.set_cookie('sid', 'token-of-' + m, path='/', httponly=True)
        return 'welcome back'

    @app.route('/ext_set')
    def ext_set():
        # application-defined request attributes live in the environ of the request they were set on
        rq = app.request
        rq.who = 'user-' + rq.query.get('m', '')
        rq.cart = [rq.who]
        return 'set %s %r' % (rq.who, rq.cart)

    COMMON = {'X-Frame-Options': 'DENY', 'Cache-Control': 'no-store'}       # one dict of headers every answer of this kind is built with

    @app.route('/common')
    def common():
        m = app.request.query.get('m')
        if app.request.query.get('deny'):
            raise HTTPError(403, 'denied', headers=COMMON, X_Deny_Reason='not for ' + m)
        r = HTTPResponse('hello', 200, headers=COMMON, **({'X_Greeted': m} if m else {}))
        if m:
            r.headers['X-For'] = m
            r.content_type = 'text/plain; for=' + m
        return r

    KEPT_ERR = {}

    @app.route('/kepterr')
    def kepterr():
        # an error object made once and raised again and again; its text holds what HTML has to escape
        if 'e' not in KEPT_ERR:
            KEPT_ERR['e'] = HTTPError(403, 'Uploads > 16 bytes are refused & dropped <always> "quoted"')
        raise KEPT_ERR['e']

    @app.route('/prepared')
    def prepared():
        # one answer prepared at start-up (with an anonymous session cookie); every request sends a copy of it, personalised or not
        if 'anon' not in kept:
            kept['anon'] = HTTPResponse('see you', 200, {'X-Prepared': 'yes'})
            kept['anon'].set_cookie('session', 'anonymous', path='/')
            kept['anon'].set_cookie('theme', 'light')
        m = app.request.query.get('m')
        mine = kept['anon'].copy(cls=HTTPResponse)
        if m:
            mine.set_cookie('session', 'session-of-' + m, path='/account', httponly=True)
            mine.delete_cookie('theme')
            mine.headers['X-Prepared'] = 'for ' + m
        mine.body = 'see you'
        return mine

    @app.route('/emptybody', method='POST')
    def emptybody():
        rq = app.request
        if rq.query.get('close'):
            with rq.body as fp:        # an application that closes what it was given when it is done
                data = fp.read()
            return 'closed after %d bytes' % len(data)
        return 'forms=%r body=%r json=%r' % (sorted(rq.forms.items()), rq.body.read(), rq.json)

    @app.route('/status599')
    def status599():
        m = app.request.query.get('m')
        if m:
            app.response.status = '599 Backend of %s on fire' % m
        else:
            app.response.status = 599
        return 'st'

    @app.route('/abort599')
    def abort599():
        ombott.abort(599, 'no phrase of its own')

    @app.route('/hdrnum')
    def hdrnum():
        q = app.request.query
        v = {'false': False, 'true': True, 'zero': 0, 'one': 1, 'fzero': 0.0, 'fone': 1.0}[q.get('v')]
        app.response.headers['X-Num'] = v
        app.response.headers.append('X-Num', v)
        return 'n' if q.get('v') in ('fone', 'true', 'one') else ''

    @app.route('/whoami')
    def whoami():
        rq = app.request
        return 'addr=%r route=%r auth=%r len=%r' % (rq.remote_addr, rq.remote_route, rq.auth, rq.content_length)

    @app.route('/ext_get')
    def ext_get():
        rq = app.request
        return 'who=%s cart=%r' % (getattr(rq, 'who', 'nobody'), getattr(rq, 'cart', None))

    @app.route('/peek')
    def peek():
        # a request without a body has no form fields, whatever was posted before
        rq = app.request
        return 'peek=%r' % ((sorted(rq.forms.items()), sorted(rq.params.items()), len(rq.POST), len(rq.files), rq.query_string),)

    @app.route('/session')
    def session():
        # the usual session idiom: read the signed value, change it in place, sign it again
        m = app.request.query.get('m', 'none')
        sess = app.request.get_cookie('sess', secret='k') or {'n': 0, 'log': []}
        sess['n'] += 1
        sess['log'].append(m)
        app.response.set_cookie('sess', sess, secret='k')
        return 'session=%r' % (sess,)

    @app.route('/signed')
    def signed():
        m = app.request.query.get('m', 'none')
        v = app.request.get_cookie('s', secret='k')
        app.response.set_cookie('s', {'m': m}, secret='k')
        return 'signed=%r' % (v,)

    return app


def kinds():
    """name -> function(variant) -> environ kwargs"""
    def mp(m):
        return ('--B\r\nContent-Disposition: form-data; name="a"\r\n\r\n' + m + '\r\n--B--\r\n').encode()
    K = {
        'ok': lambda m: dict(method='GET', path='/ok', qs='m=' + m, headers={'Cookie': 'in=' + m, 'X-In': m}),
        'plain': lambda m: dict(method='GET', path='/plain'),
        'raise': lambda m: dict(method='GET', path='/raise', qs='m=' + m),
        'abort': lambda m: dict(method='GET', path='/abort', qs='m=' + m),
        'notfound': lambda m: dict(method='GET', path='/nf/' + m, qs='q=' + m, headers={'Host': 'h' + m + '.example'}),
        'notfound_json': lambda m: dict(method='GET', path='/nf/' + m, headers={'Accept': 'application/json'}),
        'notallowed': lambda m: dict(method='DELETE', path='/ok', qs='m=' + m),
        'badpath': lambda m: dict(method='GET', path='/x', raw_path='/caf\xe9/' + m, qs='u=' + m),
        'badchunk': lambda m: dict(method='POST', path='/body', qs='m=' + m, stream=b'zz\r\n' + m.encode(), chunked=True, content_length=None),
        'badmultipart': lambda m: dict(method='POST', path='/form', qs='m=' + m, body=mp(m)[:-12], content_type='multipart/form-data; boundary=B'),
        'oversized': lambda m: dict(method='POST', path='/body', qs='m=' + m, body=m.encode() * 200),
        'crash': lambda m: dict(method='GET', path='/crash', qs='m=' + m),
        'head': lambda m: dict(method='HEAD', path='/ok', qs='m=' + m),
        'gen': lambda m: dict(method='GET', path='/gen', qs='m=' + m),
        'form': lambda m: dict(method='POST', path='/form', body=mp(m), content_type='multipart/form-data; boundary=B'),
        'urlform': lambda m: dict(method='POST', path='/form', body=('a=' + m + '&b=2').encode(), content_type='application/x-www-form-urlencoded'),
        'signed': lambda m: dict(method='GET', path='/signed', qs='m=' + m),
        # request errors that carry a message of their own (part without a name; the message quotes the part's headers) ...
        'noname_part': lambda m: dict(method='POST', path='/form', qs='m=' + m, content_type='multipart/form-data; boundary=B',
                                      body=('--B\r\nContent-Disposition: form-data; filename="secret-' + m + '.pdf"\r\n\r\nx\r\n--B--\r\n').encode()),
        # ... and message-less ones of the same class, rendered for a JSON client (the JSON page shows the exception)
        'badjson_json': lambda m: dict(method='POST', path='/json', qs='m=' + m, content_type='application/json', body=b'{"a": ' + m.encode(),
                                       headers={'Accept': 'application/json'}),
        'badchunk_json': lambda m: dict(method='POST', path='/body', qs='m=' + m, stream=b'zz\r\n' + m.encode(), chunked=True, content_length=None,
                                        headers={'Accept': 'application/json'}),
        'oversized_json': lambda m: dict(method='POST', path='/body', qs='m=' + m, body=m.encode() * 200, headers={'Accept': 'application/json'}),
        'gen_cookie': lambda m: dict(method='GET', path='/gencookie', qs='m=' + m),
        # uploads cut inside a delimiter line (the parser is left with a partly seen delimiter)
        'cutmp_in_closing_delimiter': lambda m: dict(method='POST', path='/form', qs='m=' + m, body=mp(m)[:-(4 + len(m) % 3)], content_type='multipart/form-data; boundary=B'),
        'cutmp_in_first_delimiter': lambda m: dict(method='POST', path='/form', qs='m=' + m, body=mp(m)[:1 + len(m) % 3], content_type='multipart/form-data; boundary=B'),
        'goodjson': lambda m: dict(method='POST', path='/json', content_type='application/json', body=('{"m": "' + m + '"}').encode()),
        # file-like bodies, with and without a server-side file wrapper
        'file': lambda m: dict(method='GET', path='/file', qs='m=' + m),
        'file_wrapped': lambda m: dict(method='GET', path='/file', qs='m=' + m, file_wrapper=True),
        'file_wrapped_head': lambda m: dict(method='HEAD', path='/file', qs='m=' + m, file_wrapper=True),
        # a signed cookie holding a mutable value which the handler changes in place; the same request may come again (retry, second tab)
        'session': lambda m: dict(method='GET', path='/session', qs='m=' + m, headers={'Cookie': session_cookie(m)}),
        # clients without a Host header: the URL comes from SERVER_NAME / SERVER_PORT, different per variant
        'ok_http10': lambda m: dict(method='GET', path='/ok', qs='m=' + m, headers={'Cookie': 'in=' + m, 'X-In': m, 'Host': 'h' + m + '.example:8080'}, flavour='http10'),
        'notfound_http10': lambda m: dict(method='GET', path='/nf/' + m, qs='q=' + m, headers={'Host': 'h' + m + '.example'}, flavour='http10'),
        # a form under chunked transfer framing, and a body-less request looking at its (empty) form afterwards
        'chunked_urlform': lambda m: dict(method='POST', path='/form', qs='m=' + m, content_type='application/x-www-form-urlencoded', chunked=True, content_length=None,
                                          stream=b'4\r\na=' + m.encode()[:1] + b'x\r\n' + b'%x\r\n' % (len(m) + 4) + m.encode() + b'&b=2\r\n0\r\n\r\n'),
        'peek': lambda m: dict(method='GET', path='/peek', qs='m=' + m),
        'ext_set': lambda m: dict(method='GET', path='/ext_set', qs='m=' + m),
        'ext_get': lambda m: dict(method='GET', path='/ext_get'),
        # a client behind proxies that authenticates, then an anonymous one
        'whoami_known': lambda m: dict(method='GET', path='/whoami', headers={'X-Forwarded-For': 'client-%s, proxy-%s' % (m, m),
                                                                              'Authorization': 'Basic ' + __import__('base64').b64encode(('user-%s:pw-%s' % (m, m)).encode()).decode()}),
        'whoami_anon': lambda m: dict(method='GET', path='/whoami'),
        'common_headers_personal': lambda m: dict(method='GET', path='/common', qs='m=' + m),
        'common_headers_denied': lambda m: dict(method='GET', path='/common', qs='deny=1&m=' + m),
        'common_headers_plain': lambda m: dict(method='GET', path='/common'),
        'kept_error': lambda m: dict(method='GET', path='/kepterr', qs='m=' + m),
        'kept_error_json': lambda m: dict(method='GET', path='/kepterr', headers={'Accept': 'application/json'}),
        'prepared_copy_personal': lambda m: dict(method='GET', path='/prepared', qs='m=' + m),
        'prepared_copy_plain': lambda m: dict(method='GET', path='/prepared'),
        # a body announced as empty: closed by one request's handler, looked at by the next
        'empty_body_closed': lambda m: dict(method='POST', path='/emptybody', qs='close=1&m=' + m, body=b'', content_length=0),
        'empty_body_read': lambda m: dict(method='POST', path='/emptybody', qs='m=' + m, body=b'', content_length=0, content_type='application/x-www-form-urlencoded'),
        # a status code without a registered phrase: with a phrase of the request's own, then plain
        'status_str_599': lambda m: dict(method='GET', path='/status599', qs='m=' + m),
        'status_int_599': lambda m: dict(method='GET', path='/status599'),
        'abort_599': lambda m: dict(method='GET', path='/abort599', qs='x=' + m),
        # header values that are equal as numbers but not as text
        'hdr_false': lambda m: dict(method='GET', path='/hdrnum', qs='v=false'), 'hdr_zero': lambda m: dict(method='GET', path='/hdrnum', qs='v=zero'),
        'hdr_fzero': lambda m: dict(method='GET', path='/hdrnum', qs='v=fzero'), 'hdr_true': lambda m: dict(method='GET', path='/hdrnum', qs='v=true'),
        'hdr_one': lambda m: dict(method='GET', path='/hdrnum', qs='v=one'), 'hdr_fone': lambda m: dict(method='GET', path='/hdrnum', qs='v=fone'),
        # a path cut in the middle of a UTF-8 sequence at its very end
        'badpath_tail': lambda m: dict(method='GET', path='/x', raw_path='/ok/' + m + '\xc3', qs='u=' + m),
        'badpath_tail3': lambda m: dict(method='GET', path='/x', raw_path='/plain\xe6\x97', qs='u=' + m),
        'prepared_bye': lambda m: dict(method='GET', path='/bye'),
        'logout': lambda m: dict(method='GET', path='/logout'),
        'relogin': lambda m: dict(method='GET', path='/relogin', qs='m=' + m),
        # a long form first, then forms that end before the length they announce
        'urlform_long': lambda m: dict(method='POST', path='/form', body=('a=' + m + '&password=' + 'S3cret-' * 9 + m).encode(), content_type='application/x-www-form-urlencoded'),
        'urlform_cut': lambda m: dict(method='POST', path='/form', stream=('a=' + m).encode(), content_length=len(m) + 40, content_type='application/x-www-form-urlencoded'),
        'json_cut': lambda m: dict(method='POST', path='/json', stream=('{"m": "' + m + '"}').encode(), content_length=len(m) + 60, content_type='application/json'),
        'greet_known': lambda m: dict(method='GET', path='/greet', headers={'Cookie': 'user=' + m}),
        'greet_stranger': lambda m: dict(method='GET', path='/greet', qs='m=' + m),
        'anon_wildcard_path': lambda m: dict(method='GET', path='/files/' + m + '/x.txt'),
        # bodies over the in-memory threshold, of a size that differs between the variants (a longer one before a shorter one)
        'spilled_echo': lambda m: dict(method='POST', path='/echo', qs='m=' + m, body=(m + '-private-').encode() * (14 + len(m))),
        # a Cookie header with an illegal name after a legal pair (the whole header is dropped), then well-formed ones
        'cookies_bad': lambda m: dict(method='GET', path='/cookies', headers={'Cookie': 'sid=' + m + '-secret; b@d=1; later=' + m}),
        'cookies_ok': lambda m: dict(method='GET', path='/cookies', headers={'Cookie': 'theme=' + m}),
        # one field name three times in a form upload
        'form_repeated': lambda m: dict(method='POST', path='/form', content_type='multipart/form-data; boundary=B',
                                        body=''.join('--B\r\nContent-Disposition: form-data; name="a"\r\n\r\n' + m + str(i) + '\r\n' for i in range(3)).encode() + b'--B--\r\n'),
    }
    return K


VARIANTS = ['A1', 'B22xx']      # different lengths: pages that embed the URL differ in size
SUCCESS = {'ok', 'plain', 'raise', 'head', 'gen', 'form', 'urlform', 'signed', 'goodjson', 'gen_cookie', 'file', 'file_wrapped', 'file_wrapped_head', 'session', 'ok_http10',
           'chunked_urlform', 'peek', 'spilled_echo', 'cookies_bad', 'cookies_ok', 'form_repeated', 'greet_known', 'greet_stranger', 'anon_wildcard_path', 'prepared_bye', 'logout', 'relogin', 'urlform_long', 'urlform_cut', 'ext_set', 'ext_get', 'whoami_known', 'whoami_anon', 'prepared_copy_personal', 'prepared_copy_plain', 'common_headers_personal', 'common_headers_plain', 'empty_body_closed', 'empty_body_read',
           'hdr_false', 'hdr_zero', 'hdr_fzero', 'hdr_true', 'hdr_one', 'hdr_fone'}
SHARED_ERR = {'badchunk', 'badmultipart', 'oversized', 'noname_part', 'badjson_json', 'badchunk_json', 'oversized_json', 'cutmp_in_closing_delimiter', 'cutmp_in_first_delimiter'}


def environ_for(K, kind, m, track=None):
    kw = dict(K[kind](m))
    if 'stream' in kw:
        st = RecStream(kw.pop('stream'))
        kw['stream'] = st
    env = Env(make_environ(**kw))
    # the application is reached under a mount point that differs between the marker variants
    env['SCRIPT_NAME'] = '/mount-' + m
    env['HTTP_X_SCRIPT_NAME'] = '/xs-' + m
    if track is not None:
        track.append(weakref.ref(env))
        try:
            track.append(weakref.ref(env['wsgi.input']))
        except TypeError:
            pass
    return env


def resp_key(r):
    return (r.status, tuple(sorted(r.headers or ())), r.body, r.sr_calls, bool(r.escaped))


def baselines(ctx, K):
    base = {}
    for kind in K:
        for m in VARIANTS:
            app = build_app()
            r = call_app(app, environ_for(K, kind, m))
            base[(kind, m)] = resp_key(r)
            ctx.count('baselines')
            if r.escaped is not None or r.problems:
                ctx.violation('baseline-response-broken', f'{kind}/{m}: {r.escaped!r} {r.problems}', None)
            if kind in SUCCESS and r.code >= 400:
                ctx.violation('harness-baseline-kind-failed', f'{kind}/{m}: {r.status} {r.errors[-300:]}', None)
            # the reference itself: a fresh application's answer cannot carry what earlier requests of this process brought
            for other in VARIANTS:
                if other != m and (other.encode() in r.body or any(other in v for _, v in r.headers or ())):
                    ctx.violation(f'response-of-a-fresh-application-carries-an-earlier-marker:{kind}', f'{kind}/{m} on a fresh application carries {other!r}: {r.status} {r.headers} {r.body[:200]!r}',
                                  {'unit': {'kind': 'note', 'request': [kind, m]}})
    return base


def describe_diff(b, g):
    out = []
    if b[0] != g[0]:
        out.append(f'status {b[0]!r} -> {g[0]!r}')
    hb, hg = set(b[1]), set(g[1])
    if hb != hg:
        out.append(f'headers only in history response {sorted(hg - hb)}, missing {sorted(hb - hg)}')
    if b[2] != g[2]:
        out.append(f'body {b[2][:80]!r} -> {g[2][:80]!r}')
    return '; '.join(out)


def diff_signature(kind, b, g):
    hb, hg = set(b[1]), set(g[1])
    extra = hg - hb
    what = []
    if b[0] != g[0]:
        what.append('status')
    if any(k == 'Set-Cookie' for k, v in extra):
        what.append('foreign-cookie')
    elif extra:
        what.append('foreign-header')
    elif hb - hg:
        what.append('missing-header')
    if b[2] != g[2]:
        what.append('body')
    return f'response-depends-on-history:{kind}:' + '+'.join(what)


def run_history(ctx, app, K, base, hist, covered):
    prev = None
    for i, (kind, m) in enumerate(hist):
        r = call_app(app, environ_for(K, kind, m))
        g = resp_key(r)
        b = base[(kind, m)]
        ctx.count('history_requests_compared')
        fr = check_framing(r, r.env['REQUEST_METHOD'])
        if fr or r.problems:
            ctx.violation(f'malformed-response-in-history:{kind}', f'history {hist[:i + 1]}: request {i} ({kind}/{m}): {fr} {r.problems}',
                          {'unit': {'kind': 'hist', 'history': [list(h) for h in hist[:i + 1]]}})
            return False
        if prev is not None:
            covered.add((prev[0], kind))
            if prev[0] in SUCCESS and kind not in SUCCESS:
                ctx.count('error_after_success')
            if prev[0] not in SUCCESS and kind in SUCCESS:
                ctx.count('success_after_error')
            if kind == 'badpath' and prev[0] in ('ok', 'raise', 'signed'):
                ctx.count('undecodable_path_after_cookie')
        if kind in SHARED_ERR:
            ctx.count('shared_error_instances_raised')
        if g != b:
            ctx.violation(diff_signature(kind, b, g), f'history {hist[:i + 1]}: request {i} ({kind}/{m}) differs from the same request on a fresh application: {describe_diff(b, g)}',
                          {'unit': {'kind': 'hist', 'history': [list(h) for h in hist[:i + 1]]}})
            return False
        prev = (kind, m)
    return True


def histories_unit(ctx, unit):
    K = kinds()
    base = baselines(ctx, K)
    items = [(k, m) for k in K for m in VARIANTS]
    covered = set()
    app = build_app()          # built last: see C10 on what constructing an application does to others
    n = unit['depth']
    shard, shards = unit['shard'], unit['shards']
    idx = 0
    for first in items:
        idx += 1
        if idx % shards != shard:
            continue
        for rest in itertools.product(items, repeat=n - 1):
            hist = [first, *rest]
            ctx.case(None, nontrivial=len({h for h in hist}) > 1)
            run_history(ctx, app, K, base, hist, covered)
    ctx.count('ordered_pairs_covered', len(covered))
    ctx.count('kinds_in_histories', len({k for k, _ in items}))
    ctx.sample({'history_depth': n, 'first_items_in_shard': [it for i, it in enumerate(items, 1) if i % shards == shard][:4], 'kinds': sorted(K)})


def random_unit(ctx, unit):
    K = kinds()
    base = baselines(ctx, K)
    items = [(k, m) for k in K for m in VARIANTS]
    covered = set()
    app = build_app()
    rng = ctx.rng
    for i in range(unit['n']):
        hist = [rng.choice(items) for _ in range(rng.randint(20, 60))]
        ctx.case(('h', tuple(hist)), nontrivial=True)
        run_history(ctx, app, K, base, hist, covered)
        if i % 40 == 0:
            ctx.sample({'random_history': hist[:12], 'length': len(hist)})
    ctx.count('ordered_pairs_covered', len(covered))
    ctx.count('kinds_in_histories', len({k for k, _ in items}))


def alive(track):
    gc.collect()
    return sum(1 for r in track if r() is not None)


def retention_unit(ctx, unit):
    K = kinds()
    rng = ctx.rng
    mixes = [[k] for k in K] + [sorted(K)]
    for mix in mixes:
        counts = {}
        growth = {}
        for N in (unit['n'], unit['n'] * 10):
            track = []
            app = build_app(track)
            # warm-up (module caches, lazily read templates)
            for kind in mix:
                call_app(app, environ_for(K, kind, 'A1'))
            gc.collect()
            tracemalloc.start()
            s0 = tracemalloc.take_snapshot()
            for i in range(N):
                kind = mix[i % len(mix)]
                r = call_app(app, environ_for(K, kind, VARIANTS[i % 2], track))
                del r
            a = alive(track)
            s1 = tracemalloc.take_snapshot()
            tracemalloc.stop()
            grown = sum(st.size_diff for st in s1.compare_to(s0, 'filename') if '/ombott/' in str(st.traceback) or 'vmon' in str(st.traceback))
            counts[N] = (a, len(track))
            growth[N] = grown / N
            ctx.count('weakrefs_tracked', len(track))
            ctx.count('retention_runs')
            ctx.case(('ret', tuple(mix), N), nontrivial=True)
            del app
        name = '+'.join(mix) if len(mix) == 1 else 'all-kinds-mixed'
        (a1, t1), (a2, t2) = counts[unit['n']], counts[unit['n'] * 10]
        ctx.note_max('max_alive_after_run', max(a1, a2))
        ctx.note_max('max_bytes_per_request_x100', int(100 * max(growth.values())))
        wit = {'unit': {'kind': 'ret1', 'mix': mix, 'n': unit['n']}}
        if a2 > 8 or a2 > a1 + 2:
            ctx.violation('per-request-objects-stay-alive-in-proportion-to-N', f'{name}: {a1}/{t1} tracked objects alive after {unit["n"]} requests, '
                          f'{a2}/{t2} after {unit["n"] * 10}', wit)
        if len(ctx.samples) < 8:
            ctx.sample({'mix': name, 'alive_after_N': {str(k): v[0] for k, v in counts.items()}, 'tracked': {str(k): v[1] for k, v in counts.items()},
                        'tracemalloc_bytes_per_request': {str(k): round(v, 1) for k, v in growth.items()}})


def growth_unit(ctx, unit):
    """tracemalloc monitor: memory still allocated after N and after 10N requests with all-distinct markers
    (distinct paths, queries, hosts, cookies).  The marginal growth per request must stay below a small constant:
    a retained page, environ or header set is hundreds of bytes.  Measured on the unchanged tree: <= 3 bytes."""
    K = kinds()
    N = unit['n']
    for kind in K:
        g = {}
        for n in (N, N * 10):
            app = build_app()
            for i in range(20):
                call_app(app, environ_for(K, kind, 'w%d' % i))
            gc.collect()
            tracemalloc.start(3)
            s0 = tracemalloc.take_snapshot()
            for i in range(n):
                r = call_app(app, environ_for(K, kind, 'u%06d' % i))
                del r
            gc.collect()
            s1 = tracemalloc.take_snapshot()
            tracemalloc.stop()
            g[n] = sum(st.size_diff for st in s1.compare_to(s0, 'filename'))
            del app
        marginal = (g[N * 10] - g[N]) / (9 * N)
        ctx.count('growth_runs')
        ctx.case(('growth', kind, N), nontrivial=True)
        ctx.note_max('max_marginal_bytes_per_request_x10', int(10 * marginal))
        if marginal > 64:
            ctx.violation('memory-retained-per-request-grows-with-N', f'{kind}: {g[N]} bytes still allocated after {N} distinct requests, {g[N * 10]} after {N * 10}: '
                          f'{marginal:.0f} bytes per additional request', {'unit': {'kind': 'growth1', 'n': N}})
        if len(ctx.samples) < 6:
            ctx.sample({'kind': kind, 'bytes_still_allocated': {str(k): v for k, v in g.items()}, 'marginal_bytes_per_request': round(marginal, 1)})


def plan(tier, seed):
    if tier == 'quick':
        return ([{'kind': 'histories', 'depth': 2, 'shard': i, 'shards': 4} for i in range(4)] + [{'kind': 'random', 'n': 60}]
                + [{'kind': 'retention', 'n': 60}, {'kind': 'growth', 'n': 100}])
    return ([{'kind': 'histories', 'depth': 3, 'shard': i, 'shards': 17} for i in range(17)] + [{'kind': 'histories', 'depth': 2, 'shard': 0, 'shards': 1}]
            + [{'kind': 'random', 'n': 400, 'sub': i} for i in range(8)] + [{'kind': 'retention', 'n': 300}, {'kind': 'growth', 'n': 400}])


def run_unit(ctx, unit):
    k = unit['kind']
    if k == 'histories':
        histories_unit(ctx, unit)
    elif k == 'random':
        random_unit(ctx, unit)
    elif k == 'retention':
        retention_unit(ctx, unit)
    elif k in ('growth', 'growth1'):
        growth_unit(ctx, unit)
    elif k == 'hist':
        K = kinds()
        base = baselines(ctx, K)
        app = build_app()
        run_history(ctx, app, K, base, [tuple(h) for h in unit['history']], set())
    elif k == 'ret1':
        retention_unit(ctx, {'n': unit['n']})
