"""C01 - route resolution equals the plain rule-by-rule semantics.

Reference-model monitor: rule ASTs are rendered to rule text in every syntax
flavour and registered on a real application; for every path the reference
matcher (vmon.rules) walks the ASTs and selects the winner; the real code is
observed at RadiRouter.resolve and through Ombott.__call__ (which handler ran,
with which kwargs).  Two-level oracle (S1: empty captures allowed, S2: not) for
the one point the statement leaves open; see DESIGN.md.
"""
import itertools
from vmon import rules as R
from vmon.wsgi import make_environ, call_app

RULE = ('random units: seeded rule sets (2..9 rules, shared/splitting prefixes, literal+wildcard siblings, int/float/re/path '
        'filters, anonymous wildcards, several rules on one pattern under different methods and names, every syntax flavour) x '
        'paths = instantiations of the rules, 1-2 edit mutations, random strings over an alphabet with / - . digits non-ASCII '
        'space CR LF; every case is resolved through RadiRouter.resolve and through Ombott.__call__. exhaustive units: all rule '
        'sets of size <=3 from a fixed 14-rule universe x all paths of length <=6 over {a,b,/,1,CR} (thorough tier). Non-trivial = at least one '
        'rule matches under S1; distinct = distinct (rule-set text, path, method).')
PYOPT = {'quick': 1, 'thorough': 1}     # one unit of every kind is also served by an interpreter started with -O (assert statements compiled out)
REQUIRED = ['units_run_under_python_-O', 'rule_sets_with_16_or_more_siblings_at_one_node', 'selected', 'not_found', 'multi_candidate', 'needed_backtracking', 'strict_cases', 'weak_cases',
            'converted_int', 'cr_in_path', 'same_pattern_other_method', 'wsgi_calls', 'requests_below_a_mount_point', 'mount_point_itself_requested(empty PATH_INFO)', 'kwargs_compared',
            'flavour_colon', 'flavour_angle', 'flavour_brace', 'method_405', 'domain_map_requests', 'domain_map_leading_empty_segments']
EXHAUSTIVE = {'quick': False, 'thorough': False,
              'thorough_note': 'the exh units enumerate completely: rule sets of size<=3 from the 14-rule universe x all paths of length<=6 over {a,b,/,1,CR}'}
ASSUMPTIONS = ['paths are normalised as documented: leading/trailing separators are ignored (RadiRouter.resolve)',
               'where the statement is silent (a plain wildcard capturing the empty string; any wildcard left with nothing at the end of the path) only what holds under both readings is demanded; a regular-expression filter that accepts the empty text in the middle of a path has accepted it',
               'rule literals never contain CR, {, <, : ; rules starting with // are refused by the router and not part of any rule set',
               'rex filters with selectors are outside the quantifier']

UNIVERSE = [
    [['lit', 'a']],
    [['lit', 'ab']],
    [['lit', 'a/b']],
    [['wild', 'x', None, None]],
    [['lit', 'a/'], ['wild', 'x', None, None]],
    [['lit', 'a/'], ['wild', 'x', None, None], ['lit', 'b']],
    [['wild', 'x', None, None], ['lit', '/b']],
    [['lit', 'a'], ['wild', 'n', 'int', None]],
    [['wild', 'p', 'path', None], ['lit', '/b']],
    [['lit', 'a/'], ['wild', 'x', None, None], ['lit', '/b']],
    [['wild', 'x', None, None], ['lit', '/'], ['wild', 'y', None, None]],
    [['lit', 'b'], ['wild', 'r', 're', '[ab]+']],
    [['lit', 'a/b/'], ['wild', 'y', None, None]],
    [['wild', 'n', 'int', None], ['lit', '/1']],
]


def plan(tier, seed):
    if tier == 'quick':
        return [{'kind': 'random', 'sets': 100, 'paths': 70, 'sub': i} for i in range(16)] + [{'kind': 'domain', 'sets': 60, 'paths': 40, 'sub': i} for i in range(2)] + [{'kind': 'wide', 'widths': [3, 15, 16, 17, 33, 60], 'variants': 4, 'paths': 40}]
    units = [{'kind': 'random', 'sets': 300, 'paths': 80, 'sub': i} for i in range(48)] + [{'kind': 'domain', 'sets': 300, 'paths': 60, 'sub': i} for i in range(8)]
    units += [{'kind': 'wide', 'widths': [w], 'variants': 12, 'paths': 120} for w in (2, 3, 7, 8, 9, 15, 16, 17, 31, 32, 33, 60, 62)]
    combos = [c for k in (1, 2, 3) for c in itertools.combinations(range(len(UNIVERSE)), k)]
    nsh = 48
    for i in range(nsh):
        units.append({'kind': 'exh', 'combos': combos[i::nsh], 'maxlen': 6})
    return units


class Built:
    pass


def build(rules):
    """rules: list of dict(ast, text, method).  Registers them in order on a fresh
    application; a rule the router refuses is left out (and the application rebuilt
    without it so that a refused registration can leave no residue here)."""
    import ombott
    accepted = []
    rejected = []

    def fresh(upto):
        app = ombott.Ombott()
        calls = []
        for idx in upto:
            register(app, calls, idx)
        return app, calls

    def register(app, calls, idx):
        r = rules[idx]

        def handler(_idx=idx, **kw):
            calls.append((_idx, kw))
            return 'ok'
        handler.rule_idx = idx
        # overwrite=True on a method that is not registered yet is an ordinary registration through another code path
        app.route(r['text'], method=r['method'], callback=handler, overwrite=bool(r.get('overwrite')))

    app, calls = fresh([])
    for idx in range(len(rules)):
        try:
            register(app, calls, idx)
            accepted.append(idx)
        except Exception as e:   # refused by the router: not part of the rule set
            rejected.append((idx, type(e).__name__))
            app, calls = fresh(accepted)
    b = Built()
    b.app, b.calls, b.accepted, b.rejected = app, calls, accepted, rejected
    b.rules = rules
    b.cast = {i: R.compile_ast(rules[i]['ast']) for i in accepted}
    b.atoms = {i: R.atoms(rules[i]['ast']) for i in accepted}
    b.pkey = {i: R.pattern_key(rules[i]['ast']) for i in accepted}
    groups = {}
    for i in accepted:
        groups.setdefault(b.pkey[i], {})[rules[i]['method']] = i
    b.groups = groups
    return b


def kwrepr(kw):
    return {k: (type(v).__name__, v) for k, v in kw.items()}


def reference(b, s):
    s1, s2 = {}, {}
    for i in b.accepted:
        kw = R.match(b.cast[i], s, True)
        if kw is not None:
            s1[i] = kw
            if R.match(b.cast[i], s, False) is not None:
                s2[i] = kw
    return s1, s2


def expected(b, s1, s2, method):
    """-> dict(mode, and what may be observed)"""
    g1 = {b.pkey[i] for i in s1}
    g2 = {b.pkey[i] for i in s2}
    if g1 != g2:
        return {'mode': 'weak', 's1': s1, 's2': s2}
    if not g1:
        return {'mode': 'strict', 'outcomes': [('404',)]}
    cands = [(pk, next(b.atoms[i] for i in s1 if b.pkey[i] == pk)) for pk in g1]
    win = R.winners(cands)
    outs = []
    for pk in win:
        methods = b.groups[pk]
        if method in methods:
            i = methods[method]
            outs.append(('call', i, kwrepr(s1[i])))
        elif 'ANY' in methods:
            i = methods['ANY']
            outs.append(('call', i, kwrepr(s1[i])))
        else:
            outs.append(('405', ','.join(sorted(methods))))
    return {'mode': 'strict', 'outcomes': outs, 'ncand': len(g1), 'tie': len(win) > 1, 'win': win}


def needed_backtracking(b, s, idx):
    """The selected rule has a wildcard at a position where another registered rule with the
    same pattern prefix has literal text equal to the path character there."""
    tr = []
    R.match(b.cast[idx], s, True, tr)
    ast = b.rules[idx]['ast']
    off = 0
    offs = []
    for it in ast:
        offs.append(off)
        off += len(it[1]) if it[0] == 'lit' else 1
    mine = b.atoms[idx]
    for k, cur, end in tr:
        ao = offs[k]
        if cur >= len(s):
            continue
        for j in b.accepted:
            a = b.atoms[j]
            if j != idx and len(a) > ao and a[:ao] == mine[:ao] and a[ao] is not None and a[ao] == s[cur]:
                return True
    return False


def observe_resolve(b, path, method):
    meths = [method, 'ANY']
    ep, err = b.app.router.resolve(path, meths)
    if ep:
        meth, params, hooks = ep
        return ('call', meth.handler.rule_idx, kwrepr(params))
    if err[0] == 404:
        return ('404',)
    return ('405', err[2])


def observe_wsgi(b, path, method):
    del b.calls[:]
    # a third of the requests reach the application below a mount point: SCRIPT_NAME is not part of the routed path,
    # and the mount point itself is requested with an empty PATH_INFO (PEP 3333)
    if len(path) % 3 == 0:
        env = make_environ(method, '/' + path, script_name='/shop', raw_path=('' if path == '' else None))
        b.mounted = getattr(b, 'mounted', 0) + 1
    else:
        env = make_environ(method, '/' + path)
    r = call_app(b.app, env)
    if r.escaped is not None:
        return ('escaped', repr(r.escaped))
    if r.code == 200:
        if len(b.calls) != 1:
            return ('calls', len(b.calls))
        i, kw = b.calls[0]
        return ('call', i, kwrepr(kw))
    if b.calls:
        return ('call-and-status', r.status, b.calls[0][0])
    if r.code == 404:
        return ('404',)
    if r.code == 405:
        return ('405', r.header('Allow'))
    return ('status', r.status, r.errors[-300:])


def classify(b, s, exp, obs, s1):
    """Mechanism signature for a disagreement."""
    cr = ':CR-in-path' if '\r' in s else ''
    if obs[0] == 'call':
        i = obs[1]
        shared = [j for j in b.accepted if j != i and b.pkey[j] == b.pkey[i]]
        if i in s1:
            exp_kw = kwrepr(s1[i])
            if set(exp_kw) != set(obs[2]):
                if shared:
                    return 'route:kwargs-named-after-another-rule-sharing-the-pattern'
                return 'route:kwargs-names-differ' + cr
            if exp_kw != obs[2]:
                return 'route:kwargs-values-differ' + cr
            if exp['mode'] == 'strict':
                if any(o[0] == 'call' and b.pkey[o[1]] == b.pkey[i] for o in exp['outcomes']):
                    return 'route:wrong-handler-among-rules-sharing-a-pattern'
                return 'route:wrong-rule-selected' + cr
            return 'route:selection-inconsistent-with-any-reading' + cr
        return 'route:handler-called-though-its-rule-does-not-match' + cr
    if obs[0] == '404':
        return 'route:not-found-though-a-rule-matches' + cr
    if obs[0] == '405':
        return 'route:405-mismatch' + cr
    return 'route:' + obs[0] + cr


def check_case(ctx, b, path, method, via, rules_desc):
    s = ('/' + path).strip('/')
    s1, s2 = reference(b, s)
    exp = expected(b, s1, s2, method)
    obs = observe_resolve(b, '/' + path, method) if via == 'resolve' else observe_wsgi(b, path, method)
    if via == 'wsgi':
        ctx.count('wsgi_calls')
        if len(path) % 3 == 0:
            ctx.count('requests_below_a_mount_point')
            if path == '':
                ctx.count('mount_point_itself_requested(empty PATH_INFO)')
    ok = True
    if exp['mode'] == 'strict':
        ctx.count('strict_cases')
        if exp.get('tie'):
            ctx.count('unspecified_ties')
        if exp.get('ncand', 0) >= 2:
            ctx.count('multi_candidate')
        ok = obs in exp['outcomes']
        if ok and obs[0] == 'call':
            ctx.count('kwargs_compared')
            if needed_backtracking(b, s, obs[1]):
                ctx.count('needed_backtracking')
            if any(t == 'int' for t, _ in obs[2].values()):
                ctx.count('converted_int')
            if any(t == 'float' for t, _ in obs[2].values()):
                ctx.count('converted_float')
            if len(b.groups[b.pkey[obs[1]]]) > 1 and b.rules[obs[1]]['method'] != 'GET':
                ctx.count('same_pattern_other_method')
    else:
        ctx.count('weak_cases')
        if obs[0] == 'call':
            i = obs[1]
            ok = i in s1 and kwrepr(s1[i]) == obs[2] and b.rules[i]['method'] in (method, 'ANY')
            if ok:
                ctx.count('kwargs_compared')
        elif obs[0] == '404':
            ok = not s2
        elif obs[0] == '405':
            ok = any(method not in b.groups[b.pkey[i]] for i in s1)
        else:
            ok = False
    if obs[0] == 'call':
        ctx.count('selected')
    elif obs[0] == '404':
        ctx.count('not_found')
    elif obs[0] == '405':
        ctx.count('method_405')
    if '\r' in s:
        ctx.count('cr_in_path')
    if not ok:
        sig = classify(b, s, exp, obs, s1)
        wit = {'unit': {'kind': 'one', 'rules': rules_desc, 'path': path, 'method': method, 'via': via}}
        show = exp['outcomes'] if exp['mode'] == 'strict' else {'S1': {i: kwrepr(k) for i, k in s1.items()}, 'S2': sorted(s2)}
        ctx.violation(sig, f'rules={[r["text"] + " [" + r["method"] + "]" for r in rules_desc]} path={path!r} {method} via {via}: '
                           f'observed {obs}, reference ({exp["mode"]}) allows {show}', wit)
    return bool(s1)


def gen_ruleset(rng):
    n = rng.randint(2, 9)
    asts = []
    rules = []
    for _ in range(n):
        r = rng.random()
        if asts and r < 0.25:
            # extend / vary an existing rule: shared prefixes, literal vs wildcard siblings
            base = [list(it) for it in rng.choice(asts)]
            k = rng.randint(0, len(base))
            tail = R.gen_rule(rng, max_segs=2)
            ast = R.normalise(base[:k] + ([['lit', '/']] if k and rng.random() < 0.5 else []) + tail)
            names = set()
            for it in ast:
                if it[0] == 'wild' and it[1] is not None:
                    while it[1] in names:
                        it[1] = it[1] + '_'
                    names.add(it[1])
            for kk, it in enumerate(ast):
                if it[0] == 'wild' and it[1] is None and it[2] is None and kk != len(ast) - 1:
                    it[1] = 'anonfix%d' % kk
        elif asts and r < 0.35:
            # same pattern, other names, other method
            base = rng.choice(asts)
            ast = []
            for it in base:
                it = list(it)
                if it[0] == 'wild' and it[1] is not None and rng.random() < 0.7:
                    it[1] = it[1] + '2'
                ast.append(it)
            rules.append({'ast': ast, 'text': R.render(rng, ast), 'method': rng.choice(['POST', 'PUT']), 'overwrite': rng.random() < 0.4})
            continue
        else:
            ast = R.gen_rule(rng)
        asts.append(ast)
        rules.append({'ast': ast, 'text': R.render(rng, ast), 'method': 'GET', 'overwrite': rng.random() < 0.15})
    return rules


def flavour_counts(ctx, rules):
    for r in rules:
        t = r['text']
        if ':' in t and '<' not in t and '{' not in t:
            ctx.count('flavour_colon')
        if '<' in t:
            ctx.count('flavour_angle')
        if '{' in t:
            ctx.count('flavour_brace')
        if '(' in t:
            ctx.count('flavour_parenthesised_args')


def random_unit(ctx, unit):
    rng = ctx.rng
    for si in range(unit['sets']):
        rules = gen_ruleset(rng)
        b = build(rules)
        ctx.count('rules_registered', len(b.accepted))
        ctx.count('rules_refused', len(b.rejected))
        acc_rules = [rules[i] for i in b.accepted]
        flavour_counts(ctx, acc_rules)
        desc = [{'ast': r['ast'], 'text': r['text'], 'method': r['method'], 'overwrite': bool(r.get('overwrite'))} for r in rules]
        paths = R.gen_paths(rng, [rules[i]['ast'] for i in b.accepted], unit['paths'])
        tkey = tuple(r['text'] + r['method'] for r in acc_rules)
        for path in paths:
            method = 'GET' if rng.random() < 0.8 else rng.choice(['POST', 'PUT'])
            for via in ('resolve', 'wsgi'):
                nt = check_case(ctx, b, path, method, via, desc)
                ctx.case((tkey, path, method, via), nontrivial=nt)
        if len(ctx.samples) < 3:
            ctx.sample({'rules': [r['text'] + ' [' + r['method'] + ']' for r in acc_rules], 'paths': paths[:6]})


def wide_unit(ctx, unit):
    """Tree nodes with many children: 3 .. 60 literal siblings (each starting with another character) beside wildcard rules at the same
    position.  How wide a node is changes nothing about which rule a path selects."""
    rng = ctx.rng
    firsts = 'abcdefghijklmnopqrstuvwxyzABCDEFGHIJKLMNOPQRSTUVWXYZ0123456789'
    for width in unit['widths']:
        for variant in range(unit['variants']):
            rules = []
            for ch in firsts[:width]:
                lit = ch + rng.choice(['', 'x', '1', '-' + ch])
                rules.append({'ast': [['lit', 'x/' + lit]], 'text': '/x/' + lit, 'method': 'GET'})
            wild = [[['lit', 'x/'], ['wild', 'name', None, None], ['lit', '/edit']],
                    [['lit', 'x/'], ['wild', 'a', None, None], ['lit', '/p/'], ['wild', 'b', None, None]],
                    [['lit', 'x/'], ['wild', 'only', None, None]]]
            for ast in wild[:1 + variant % 3] + ([wild[2]] if variant % 2 else []):
                if not any(r['ast'] == ast for r in rules):
                    rules.append({'ast': ast, 'text': R.render(rng, ast), 'method': 'GET'})
            rng.shuffle(rules)
            b = build(rules)
            ctx.count('rules_registered', len(b.accepted))
            ctx.count('rule_sets_with_16_or_more_siblings_at_one_node' if width >= 16 else 'rule_sets_with_fewer_siblings')
            desc = [{'ast': r['ast'], 'text': r['text'], 'method': r['method'], 'overwrite': False} for r in rules]
            paths = R.gen_paths(rng, [rules[i]['ast'] for i in b.accepted], unit['paths'])
            paths += ['x/\r/edit', 'x/\r/p/q', 'x/\r', 'x/a\r/edit', 'x/\rb/p/\r', 'x/q/p/\r', 'x//edit', 'x/' + firsts[width - 1], 'x/' + firsts[min(width, 61)] + '/edit']
            for path in paths:
                for via in ('resolve', 'wsgi'):
                    nt = check_case(ctx, b, path, 'GET', via, desc)
                    ctx.case(('wide', width, variant, path, via), nontrivial=nt)
    ctx.sample({'sibling_counts': unit['widths'], 'wildcard_rules_beside_them': ['/x/<name>/edit', '/x/<a>/p/<b>', '/x/<only>']})


def exh_unit(ctx, unit):
    import random
    alpha = ['a', 'b', '/', '1', '\r']
    paths = ['']
    for L in range(1, unit['maxlen'] + 1):
        paths.extend(''.join(t) for t in itertools.product(alpha, repeat=L))
    rng = random.Random(0)
    for combo in unit['combos']:
        rules = []
        for ui in combo:
            ast = UNIVERSE[ui]
            rules.append({'ast': ast, 'text': R.render(rng, ast, flavour=ui), 'method': 'GET'})
        b = build(rules)
        desc = rules
        ctx.count('rules_registered', len(b.accepted))
        ctx.count('rules_refused', len(b.rejected))
        nt = 0
        for path in paths:
            if check_case(ctx, b, path, 'GET', 'resolve', desc):
                nt += 1
        ctx.case(None, nontrivial=True, n=nt)
        ctx.case(None, nontrivial=False, n=len(paths) - nt)
        ctx.count('exhaustive_rule_sets')
    ctx.sample({'exhaustive': True, 'rule_sets_in_unit': len(unit['combos']), 'paths_per_set': len(paths),
                'example_set': [R.render(rng, UNIVERSE[i], flavour=i) for i in unit['combos'][0]] if unit['combos'] else None})


def domain_unit(ctx, unit):
    """The same monitor behind a host -> application-name mapping (config domain_map / app_name_header): the path the
    router sees is '/' + name + PATH_INFO, nothing else; paths with empty leading segments are the interesting ones."""
    import ombott
    rng = ctx.rng
    for si in range(unit['sets']):
        name = rng.choice(['shop', 'a', 'ab'])
        asts = []
        for _ in range(rng.randint(2, 6)):
            ast = R.gen_rule(rng, filters=rng.random() < 0.5, max_segs=3)
            if rng.random() < 0.7:
                ast = R.normalise([['lit', name + '/']] + ast) if rng.random() < 0.8 else R.normalise([['lit', name]] + ast)
            asts.append(ast)
        app = ombott.Ombott({'domain_map': (lambda host, _n=name: _n if host and host.startswith('mapped') else None), 'app_name_header': 'HTTP_X_APP_NAME'})
        calls = []
        accepted = []
        for idx, ast in enumerate(asts):
            text = R.render(rng, ast)
            if text.startswith('//'):
                continue

            def handler(_idx=idx, **kw):
                calls.append((_idx, kw))
                return 'ok'
            try:
                app.route(text, 'GET', handler)
                accepted.append((idx, ast, text))
            except Exception:  # noqa  refused rules are not part of the rule set
                app = None
                break
        if app is None or not accepted:
            continue
        casts = {idx: R.compile_ast(ast) for idx, ast, _ in accepted}
        atoms = {idx: R.atoms(ast) for idx, ast, _ in accepted}
        paths = R.gen_paths(rng, [ast for _, ast, _ in accepted], unit['paths'])
        for p in paths:
            # PATH_INFO as the client sends it: the generated path minus the application name, with 0..3 leading separators
            tail = p[len(name):] if p.startswith(name) and rng.random() < 0.7 else p
            path_info = '/' * rng.choice([0, 1, 1, 1, 2, 3]) + tail.lstrip('/') if rng.random() < 0.5 else '/' + tail
            if not path_info.startswith('/'):
                path_info = '/' + path_info
            seen = '/' + name + path_info              # what the router is documented to see
            s_ = seen.strip('/')
            m1 = {i: R.match(c, s_, True) for i, c in casts.items()}
            m1 = {i: kw for i, kw in m1.items() if kw is not None}
            m2 = {i for i, c in casts.items() if R.match(c, s_, False) is not None}
            del calls[:]
            r = call_app(app, make_environ('GET', path_info, headers={'Host': 'mapped.example'}))
            ctx.count('domain_map_requests')
            ctx.count('wsgi_calls')
            if path_info.startswith('//'):
                ctx.count('domain_map_leading_empty_segments')
            ctx.case(('domain', tuple(t for _, _, t in accepted), path_info), nontrivial=bool(m1))
            wit = {'unit': {'kind': 'note', 'app_name': name, 'rules': [t for _, _, t in accepted], 'path_info': path_info}}
            if r.escaped is not None or r.code is None or r.code >= 500:
                ctx.violation('route:domain-map:server-fault', f'app name {name!r} rules {[t for _, _, t in accepted]} PATH_INFO {path_info!r}: {r.status} {r.errors[-200:]}', wit)
                continue
            if set(m1) != m2:
                ctx.count('weak_cases')
                if r.code == 200 and (len(calls) != 1 or calls[0][0] not in m1 or kwrepr(calls[0][1]) != kwrepr(m1[calls[0][0]])):
                    ctx.violation('route:domain-map:selection-inconsistent-with-any-reading', f'app name {name!r} PATH_INFO {path_info!r} (router sees {seen!r}): ran {calls}', wit)
                continue
            ctx.count('strict_cases')
            if not m1:
                if r.code != 404 or calls:
                    ctx.violation('route:domain-map:handler-called-though-no-rule-matches-the-mapped-path', f'app name {name!r} rules {[t for _, _, t in accepted]} PATH_INFO {path_info!r} '
                                  f'(router sees {seen!r}): {r.status} ran {calls}', wit)
                continue
            win = R.winners([(i, atoms[i]) for i in m1])
            if r.code != 200 or len(calls) != 1:
                ctx.violation('route:domain-map:not-found-though-a-rule-matches-the-mapped-path', f'app name {name!r} rules {[t for _, _, t in accepted]} PATH_INFO {path_info!r} '
                              f'(router sees {seen!r}): {r.status}; matching rules {sorted(m1)}', wit)
                continue
            i, kw = calls[0]
            if i not in win or kwrepr(kw) != kwrepr(m1[i]):
                ctx.violation('route:domain-map:wrong-rule-or-arguments', f'app name {name!r} PATH_INFO {path_info!r} (router sees {seen!r}): ran rule {i} with {kw}, expected one of {win} with {m1.get(i)}', wit)
        if si % 40 == 0:
            ctx.sample({'domain_map': f'host mapped.example -> {name!r}', 'rules': [t for _, _, t in accepted], 'example_path_info': paths[0] if paths else None})


def run_unit(ctx, unit):
    k = unit['kind']
    if k == 'domain':
        domain_unit(ctx, unit)
    elif k == 'note':
        print('  witness:', unit)
    elif k == 'random':
        random_unit(ctx, unit)
    elif k == 'exh':
        exh_unit(ctx, unit)
    elif k == 'wide':
        wide_unit(ctx, unit)
    else:
        b = build(unit['rules'])
        print('  registered:', [unit['rules'][i]['text'] for i in b.accepted], 'refused:', b.rejected)
        check_case(ctx, b, unit['path'], unit['method'], unit['via'], unit['rules'])
