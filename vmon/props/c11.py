"""C11 - the router after any edit history equals a freshly built router.

(a) metamorphic: the harness keeps a model of the survivors, updated from the *observed*
    outcome of every operation (accepted / raised) and the documented effect of removals;
    after a history a fresh application is built from the survivors and both are asked the
    same probes: resolve(path, methods), router[name], router[{rule}], router.routes, and a
    GET through Ombott.__call__ (which route hooks fired with which prefix, which handler ran
    with which arguments).
(b) reference for hooks, from the statement: for the matched route the hooks whose pattern is
    a prefix of the route's pattern fire outermost first with path[:1 + consumed].
(c) structural invariant of the radix tree after every mutation.
"""
import itertools
from vmon.wsgi import make_environ, call_app

RULE = ('operations over a universe of 16 rules (shared and splitting prefixes, wildcard siblings, filter families) and 7 hook rules (root, inner '
        'prefixes, a wildcard prefix, a literal sibling of a wildcard, a hook-only leaf): add / add other method / named add / overwrite / duplicate and name-clash rejections / '
        'filter clashes / remove(rule) / remove(name) / remove(prefix*) / add_hook / remove_hook / removals of absent things. exhaustive units: every '
        'history of length <= D over the whole alphabet (D=2 quick, 3 thorough) by re-execution; random units: histories of length 6-30. After each '
        'history: probes on ~30 paths x 2 verbs + names + rules + routes + WSGI hook traces, real vs freshly built. Non-trivial = the history '
        'contains a removal or a rejected operation; distinct = distinct history.')
PYOPT = {'quick': 1, 'thorough': 1}     # one unit of every kind is also served by an interpreter started with -O (assert statements compiled out)
REQUIRED = ['units_run_under_python_-O', 'op_add_hook_same_function_again', 'op_other_application_parses_new_filters', 'op_through_another_spelling_of_the_rule', 'scoped_404_reference_checked', 'op_add_scoped_404_handler', 'scoped_404_handler_calls_compared', 'wsgi_probes_below_a_mount_point', 'op_add_method_on_the_route_object', 'scripted_histories', 'op_add_method_list', 'histories', 'ops_applied', 'ops_rejected', 'resolve_probes', 'name_probes', 'wsgi_probes', 'hook_firings_compared', 'structure_checks',
            'op_add', 'op_remove', 'op_remove_name', 'op_remove_prefix', 'op_add_hook', 'op_remove_hook', 'op_overwrite', 'rejected_method_clash',
            'rejected_name_clash', 'hook_reference_checked', 'removed_then_probed', 'hook_only_prefix_probed']
EXHAUSTIVE = {'quick': True, 'thorough': True, 'quick_note': 'all histories of length <= 2 over the 76-operation alphabet',
              'thorough_note': 'all histories of length <= 3 over the 76-operation alphabet'}
ASSUMPTIONS = ['hooks lying under a prefix removed with * are unspecified afterwards (the statement): their firings are filtered out until the hook is set or removed again',
               'rules sharing a pattern use identical text; filter-family clashes may be accepted or rejected by the tree state, but a rejection must leave no trace',
               'router.routes is compared as a mapping, not by iteration order']

W = '\r'
# rule text -> (pattern with CR for wildcards, probe path, expected kwargs at that path)
RULES = {
    '/a': ('a', '/a', {}),
    '/ab': ('ab', '/ab', {}),
    '/abc': ('abc', '/abc', {}),
    '/a/b': ('a/b', '/a/b', {}),
    '/a/<x>': ('a/' + W, '/a/val', {'x': 'val'}),
    '/a/<x>/c': ('a/' + W + '/c', '/a/val/c', {'x': 'val'}),
    '/a/<n:int>': ('a/' + W, '/a/42', {'n': 42}),
    '/<y>': (W, '/why', {'y': 'why'}),
    '/<y>/d': (W + '/d', '/why/d', {'y': 'why'}),
    '/b/<p:path>': ('b/' + W, '/b/p/q', {'p': 'p/q'}),
    '/b/<p:path>/end': ('b/' + W + '/end', '/b/p/q/end', {'p': 'p/q'}),
    '/h/x': ('h/x', '/h/x', {}),
    '/h/y': ('h/y', '/h/y', {}),
    '/a/b/<z>': ('a/b/' + W, '/a/b/zed', {'z': 'zed'}),
    # two rules that go on differently after one filtered wildcard, none ending on the wildcard itself
    '/i/<n:int>/e': ('i/' + W + '/e', '/i/5/e', {'n': 5}),
    '/i/<n:int>.j': ('i/' + W + '.j', '/i/5.j', {'n': 5}),
    # one regular expression, three rules: the alternative that matched selects the rule (its number is part of the pattern)
    '/s/<v.rex((a+)|(b+))[1]>': ('s/' + W + '1', '/s/aa', {'v': 'aa'}),
    '/s/<v.rex((a+)|(b+))[2]>': ('s/' + W + '2', '/s/bb', {'v': 'bb'}),
    '/s/<v.rex((a+)|(b+))>': ('s/' + W, '/s/aa', {'v': 'aa'}),
}
SEL1, SEL2, SEL0 = '/s/<v.rex((a+)|(b+))[1]>', '/s/<v.rex((a+)|(b+))[2]>', '/s/<v.rex((a+)|(b+))>'
FAMILIES = [{'/a/<x>', '/a/<x>/c', '/a/<n:int>'}, {'/b/<p:path>', '/b/<p:path>/end'}]
# the hook on the wildcard position spells the wildcard differently from the routes on it (`<w>` / `<x>`): names belong to rules
HOOKS = {'/': '', '/a': 'a', '/a/<w>': 'a/' + W, '/h': 'h', '/ab': 'ab', '/zz': 'zz', '/a/b': 'a/b'}
HOOKS_404 = ['/a', '/h', '/zz', '/a/b']
EXTRA_PATHS = ['/a/é', '/a/日本/c', '/é/d', '/a/b/zé', '/a/é/nothing', '/a/nothing/here', '/h/zz/top', '/a/b/c/d', '/s/ab', '/s/c', '/s/b', '/s', '/i/5', '/i/abc', '/i/abc/e', '/i/5.json', '/i/7/e', '/', '/a/', '/abcd', '/a/5/c', '/a/b/c', '/zz', '/zz/top', '/h', '/h/z', '/b/end', '/b', '/x/d', '/a/b/', '/A', '/a//c', '/ab/']
PREFIXES = ['/a*', '/a/*', '/h/*', '/q*', '/a/b*', '/s/*']


# other spellings of rules of the universe (same pattern, same wildcard names): they address the same route
ALIASES = {'/a/:x': '/a/<x>', '/a/{x}/c': '/a/<x>/c', '/i/{n:int}/e': '/i/<n:int>/e', '/<y:re:[^/]+>/d'[:0] + '/:y/d': '/<y>/d'}


def alphabet():
    ops = []
    for alias in ALIASES:
        ops.append(('add', alias, 'GET', None, False))
        ops.append(('add', alias, 'PUT', 'n2', False))
        ops.append(('remove', alias))
    for r in RULES:
        ops.append(('add', r, 'GET', None, False))
        ops.append(('add', r, 'POST', None, False))
    for r in ('/a', '/a/<x>', '/h/x', '/<y>', SEL1):
        ops.append(('add', r, 'GET', 'n1', False))
    for r in ('/ab', '/a/<x>'):
        ops.append(('add', r, 'PUT', 'n2', False))
    for r in ('/a', '/a/<x>', '/h/x', '/abc'):
        ops.append(('add', r, 'GET', None, True))
    for r in ('/ab', '/h/x'):
        ops.append(('add', r, 'GET', 'n1', True))
    # several methods in one call: rejected as a whole when one of them is taken
    for r in ('/a', '/a/<x>', '/h/x'):
        ops.append(('add', r, ('PATCH', 'GET'), None, False))
        ops.append(('add', r, ('GET', 'PATCH'), 'n2', False))
    # a method attached to the route object itself (no rule text, so no wildcard names of its own)
    for r in ('/a/<x>', '/a/<x>/c', '/h/x', '/i/<n:int>/e'):
        ops.append(('add_direct', r, 'PUT'))
    for r in RULES:
        ops.append(('remove', r))
    ops.append(('remove_name', 'n1'))
    ops.append(('remove_name', 'n2'))
    for p in PREFIXES:
        ops.append(('remove_prefix', p))
    for h in HOOKS:
        ops.append(('add_hook', h))
        ops.append(('remove_hook', h))
    # hook removal by a wildcard pattern is refused by the router: a refused operation leaves nothing behind
    for h in ('/a/*', '/h/*', '/a*'):
        ops.append(('remove_hook', h))
    # the same function object installed again (after a removal, or twice), as an application re-running its set-up does
    for h in ('/a', '/h'):
        ops.append(('add_hook', h, 'same'))
    # the second kind of route hook: a not-found handler scoped to a prefix (app.error(404, rule=...))
    for h in HOOKS_404:
        ops.append(('add_404', h))
    return ops


class Sys:
    def __init__(self):
        import ombott
        self.ombott = ombott
        self.app = ombott.Ombott()
        self.log = []
        self.routes = {}       # rule -> {'methods': {M: hid}, 'names': set}
        self.names = {}        # name -> rule
        self.hooks = {}        # hook rule -> hook id
        self.hooks404 = {}     # hook rule -> id of the scoped not-found handler
        self.unspec = set()    # hook rules whose state is unspecified (under a removed prefix)
        self.unspec_ids = set()
        self.n = 0
        self.same = {}
        self.ever_removed = False

    def mk_handler(self, log):
        self.n += 1
        hid = 'h%d' % self.n
        return hid, make_handler(hid, log)

    def apply(self, ctx, op):
        """-> 'ok' | 'raised:<Type>'"""
        app = self.app
        kind = op[0]
        try:
            if kind == 'add':
                _, rule, meth, name, ow = op
                hid, h = self.mk_handler(self.log)
                app.route(rule, list(meth) if isinstance(meth, (tuple, list)) else meth, h, name=name, overwrite=ow)
            elif kind == 'add_direct':
                route = app.router[{op[1]}] if op[1] in self.routes else None
                if route is not None:
                    hid, h = self.mk_handler(self.log)
                    route.add_method(op[2], h)
            elif kind == 'remove':
                app.remove_route(op[1])
            elif kind == 'remove_name':
                app.remove_route(name=op[1])
            elif kind == 'remove_prefix':
                app.remove_route(op[1])
            elif kind == 'noise':
                # another application of the process registers rules with filters nobody has used before
                other = self.ombott.Ombott()
                for _ in range(op[1]):
                    _NOISE[0] += 1
                    other.route('/noise%d/<v:re:[a-z]{%d}>/<w:re:x{%d}>' % (_NOISE[0], _NOISE[0], _NOISE[0]), 'GET', lambda **kw: None)
            elif kind == 'add_hook' and len(op) > 2:
                kid = 'same:' + op[1]
                if kid not in self.same:
                    self.same[kid] = make_hook(kid, self.log)
                self.n += 1
                if self.n % 2:
                    app.on_route(op[1], self.same[kid])
                else:
                    app.on_route(op[1])(self.same[kid])
            elif kind == 'add_hook':
                self.n += 1
                kid = 'k%d' % self.n
                if self.n % 2:
                    app.on_route(op[1], make_hook(kid, self.log))
                else:
                    app.on_route(op[1])(make_hook(kid, self.log))       # decorator form
            elif kind == 'add_404':
                self.n += 1
                kid = 'p%d' % self.n
                app.error(404, rule=op[1])(make_404(kid, self.log))
            elif kind == 'remove_hook':
                app.remove_route_hook(op[1])
            out = 'ok'
        except Exception as e:  # noqa
            out = 'raised:' + type(e).__name__
        self.update_model(ctx, op, out, locals().get('hid'), locals().get('kid'))
        return out

    def update_model(self, ctx, op, out, hid, kid):
        kind = op[0]
        ok = out == 'ok'
        if kind in ('add', 'remove') and op[1] in ALIASES:
            ctx.count('op_through_another_spelling_of_the_rule')
            op = (op[0], ALIASES[op[1]]) + tuple(op[2:])
        if kind == 'add':
            _, rule, meth, name, ow = op
            ctx.count('op_overwrite' if ow else 'op_add')
            cur = self.routes.get(rule)
            meths = list(meth) if isinstance(meth, (tuple, list)) else [meth]
            if len(meths) > 1:
                ctx.count('op_add_method_list')
            method_clash = cur is not None and any(m in cur['methods'] for m in meths) and not ow
            name_clash = name is not None and self.names.get(name) not in (None, rule) and not ow
            family = any(rule in f for f in FAMILIES)
            if ok:
                if method_clash:
                    ctx.violation('duplicate-method-accepted-without-overwrite', f'{op}', None)
                if name_clash:
                    ctx.violation('taken-name-accepted-without-overwrite', f'{op}', None)
                if cur is None:
                    cur = self.routes[rule] = {'methods': {}, 'names': set()}
                for m in meths:
                    cur['methods'][m] = hid
                if name is not None:
                    old = self.names.get(name)
                    if old is not None and old != rule and old in self.routes:
                        self.routes[old]['names'].discard(name)
                    self.names[name] = rule
                    cur['names'].add(name)
            else:
                ctx.count('ops_rejected')
                if method_clash:
                    ctx.count('rejected_method_clash')
                elif name_clash:
                    ctx.count('rejected_name_clash')
                elif family and out == 'raised:RadiDictKeyError':
                    ctx.count('rejected_filter_clash')
                else:
                    ctx.violation(f'add-rejected-without-reason:{out}', f'{op} with routes {sorted(self.routes)}', None)
        elif kind == 'add_direct':
            cur = self.routes.get(op[1])
            if cur is None:
                return
            ctx.count('op_add_method_on_the_route_object')
            clash = op[2] in cur['methods']
            if ok:
                if clash:
                    ctx.violation('duplicate-method-accepted-without-overwrite', f'{op}', None)
                cur['methods'][op[2]] = hid
            else:
                ctx.count('ops_rejected')
                if clash:
                    ctx.count('rejected_method_clash')
                else:
                    ctx.violation(f'add-rejected-without-reason:{out}', f'{op} with routes {sorted(self.routes)}', None)
        elif kind == 'remove':
            ctx.count('op_remove')
            if not ok:
                ctx.violation(f'remove(rule)-raises:{out}', f'{op}', None)
            r = self.routes.pop(op[1], None)
            if r is not None:
                self.ever_removed = True
                for n in r['names']:
                    self.names.pop(n, None)
        elif kind == 'remove_name':
            ctx.count('op_remove_name')
            rule = self.names.get(op[1])
            if rule is not None:
                if not ok:
                    ctx.violation(f'remove(name)-raises:{out}', f'{op}', None)
                r = self.routes.pop(rule, None)
                self.ever_removed = True
                for n in (r['names'] if r else ()):
                    self.names.pop(n, None)
            else:
                ctx.count('ops_rejected' if not ok else 'remove_absent_name_silent')
        elif kind == 'remove_prefix':
            ctx.count('op_remove_prefix')
            if not ok:
                ctx.violation(f'remove(prefix*)-raises:{out}', f'{op}', None)
            pre = op[1][1:-1]      # universe prefixes contain no wildcards: the text is the pattern
            for rule in [r for r in self.routes if RULES[r][0].startswith(pre)]:
                r = self.routes.pop(rule)
                self.ever_removed = True
                for n in r['names']:
                    self.names.pop(n, None)
            for h, pat in HOOKS.items():
                if pat.startswith(pre) and h in self.hooks:
                    self.unspec.add(h)
                    self.unspec_ids.add(self.hooks.pop(h))
                if pat.startswith(pre) and h in self.hooks404:
                    self.unspec.add(h)
                    self.unspec_ids.add(self.hooks404.pop(h))
        elif kind == 'noise':
            ctx.count('op_other_application_parses_new_filters')
            if not ok:
                ctx.violation(f'registration-on-another-application-raises:{out}', f'{op}', None)
        elif kind == 'add_hook':
            ctx.count('op_add_hook_same_function_again' if len(op) > 2 else 'op_add_hook')
            if ok:
                self.hooks[op[1]] = kid
                self.unspec.discard(op[1])
                self.unspec_ids.discard(kid)        # the same function installed again is a specified hook again
            else:
                ctx.count('ops_rejected')
                if not (op[1] == '/a/<w>' and out == 'raised:RadiDictKeyError'):
                    ctx.violation(f'add_hook-rejected-without-reason:{out}', f'{op}', None)
        elif kind == 'add_404':
            ctx.count('op_add_scoped_404_handler')
            if ok:
                self.hooks404[op[1]] = kid
                if op[1] not in self.hooks:
                    self.unspec.discard(op[1])
            else:
                ctx.count('ops_rejected')
                ctx.violation(f'add_hook-rejected-without-reason:{out}', f'{op}', None)
        elif kind == 'remove_hook' and op[1].endswith('*'):
            ctx.count('op_remove_hook_by_wildcard')
            if ok:
                # (should a router accept it, what lies below the prefix is as unspecified as after a prefix removal of routes)
                pre = op[1][1:-1]
                for h, pat in HOOKS.items():
                    if pat.startswith(pre) and h in self.hooks:
                        self.unspec.add(h)
                        self.unspec_ids.add(self.hooks.pop(h))
                    if pat.startswith(pre) and h in self.hooks404:
                        self.unspec.add(h)
                        self.unspec_ids.add(self.hooks404.pop(h))
            else:
                ctx.count('ops_rejected')
        elif kind == 'remove_hook':
            ctx.count('op_remove_hook')
            if not ok:
                ctx.violation(f'remove_hook-raises:{out}', f'{op}', None)
            self.hooks.pop(op[1], None)
            self.hooks404.pop(op[1], None)      # a hook position is removed as a whole
            self.unspec.discard(op[1])
            self.ever_removed = True

    def fresh(self):
        """A new application built from the survivors."""
        f = Sys()
        f.log = []
        app = f.app
        for rule, r in self.routes.items():
            first = True
            for meth, hid in r['methods'].items():
                app.route(rule, meth, make_handler(hid, f.log))
            if not r['methods']:
                raise AssertionError('model route without methods')
            for n in r['names']:
                m0, h0 = next(iter(r['methods'].items()))
                app.route(rule, m0, make_handler(h0, f.log), name=n, overwrite=True)
        for h, kid in self.hooks.items():
            app.on_route(h, make_hook(kid, f.log))
        for h, kid in self.hooks404.items():
            app.error(404, rule=h)(make_404(kid, f.log))
        return f


_NOISE = [0]


def make_handler(hid, log):
    def h(**kw):
        log.append(('handler', hid, tuple(sorted(kw.items()))))
        return hid
    h.__name__ = hid
    h.hid = hid
    return h


def make_hook(kid, log):
    def k(prefix):
        log.append(('hook', kid, prefix))
    k.kid = kid
    return k


def make_404(kid, log):
    def k(prefix, params):
        log.append(('scoped-404', kid, prefix, tuple(params)))
        return 'scoped-404-' + kid
    k.kid = kid
    return k


_STRUCT = {'usable': True}


def walk_structure(radidict):
    """structural invariant (c); -> message or None.  The walker knows the node layout of the anchored radix tree;
    if that layout is refactored away the monitor switches itself off (counted) instead of failing the run."""
    if not _STRUCT['usable']:
        return None
    try:
        return _walk_structure(radidict)
    except (AttributeError, IndexError, TypeError, KeyError, ImportError) as e:
        _STRUCT['usable'] = False
        _STRUCT['why'] = repr(e)
        return None


def _walk_structure(radidict):
    from ombott.router import radidict as RD
    T = radidict.param_token
    stack = [(radidict.root, True)]
    while stack:
        node, is_root = stack.pop()
        key, idx = node[RD.KEY], node[RD.IDX]
        children = node[RD.OFFSET:]
        if not is_root and not key:
            return 'node with empty key'
        if (idx or '') != ''.join((c[RD.KEY][0] if c[RD.KEY] != T else T) for c in children):
            return f'index string {idx!r} does not list the first characters of the children {[c[RD.KEY] for c in children]}'
        toks = [i for i, c in enumerate(children) if c[RD.KEY] == T]
        if len(toks) > 1 or (toks and toks[0] != len(children) - 1):
            return f'wildcard child not unique/last under {key!r}'
        for c in children:
            if c[RD.KEY] != T and T in c[RD.KEY]:
                return f'wildcard marker inside a literal key {c[RD.KEY]!r}'
        firsts = [c[RD.KEY][0] for c in children]
        if len(set(firsts)) != len(firsts):
            return f'two children of {key!r} start with the same character'
        if not is_root and not (node[RD.DATA] or node[RD.HOOKS] or children):
            return f'dangling node {key!r} without data, hooks or children'
        for c in children:
            stack.append((c, False))
    return None


def resolve_answer(app, path, verb):
    ep, err = app.router.resolve(path, [verb, 'ANY'])
    if ep:
        meth, params, hooks = ep
        return ('route', getattr(meth.handler, 'hid', '?'), tuple(sorted(params.items())), _hook_ids(hooks))
    if err[0] == 405:
        return ('405', err[2])
    extra = err[2] if len(err) > 2 and isinstance(err[2], dict) else {}
    return ('404', None, tuple(extra.get('param_values', ())), _hook_ids(extra.get('hooks', ())))


def _hook_ids(hooks):
    """(position, id of the simple hook, id of the scoped not-found handler) per hook position on the way"""
    return tuple((pos, getattr(h[0], 'kid', None) if h else None, getattr(h[1], 'kid', None) if h and len(h) > 1 else None) for pos, h in hooks)


def filt_hooks(ans, unspec_ids):
    if ans[0] not in ('route', '404'):
        return ans
    hs = []
    for pos, kid, pid in ans[3]:
        kid = None if kid in unspec_ids else kid
        pid = None if pid in unspec_ids else pid
        if kid is not None or pid is not None:
            hs.append((pos, kid, pid))
    return ans[:3] + (tuple(hs),)


def probe_paths():
    return [v[1] for v in RULES.values()] + EXTRA_PATHS


def pattern_positions(rule, path):
    """cursor (in the stripped path) after each pattern atom of `rule` when it matches `path`, for universe rules"""
    pat = RULES[rule][0]
    s = path.strip('/')
    pos = []
    i = 0
    for k, a in enumerate(pat):
        if a == W:
            nxt = pat[k + 1:]
            if rule.startswith('/i/'):          # int filter
                import re as _re
                j = i + _re.match(r'-?\d+', s[i:]).end()
            elif rule.startswith('/b/'):          # path filter: up to the look-ahead literal
                j = s.rfind('/end') if nxt else len(s)
            else:
                j = s.find('/', i)
                j = len(s) if j < 0 else j
            i = j
        else:
            i += 1
        pos.append(i)
    return pos


def compare(ctx, real, hist, tag):
    """Probe the real system against a freshly built one.  -> True if all agree"""
    wit = {'unit': {'kind': 'hist', 'history': [list(o) for o in hist]}}
    where = f'after {tag} history {hist}'
    msg = walk_structure(real.app.router.radidict)
    ctx.count('structure_checks')
    if msg:
        ctx.violation('radix-tree-structural-invariant-broken', f'{where}: {msg}', wit)
        return False
    fresh = real.fresh()
    ra, fa = real.app, fresh.app
    ok = True
    for path in probe_paths():
        for verb in ('GET', 'POST', 'PUT'):
            a = filt_hooks(resolve_answer(ra, path, verb), real.unspec_ids)
            b = filt_hooks(resolve_answer(fa, path, verb), set())
            ctx.count('resolve_probes')
            if a != b:
                if a[0] != b[0]:
                    sig = f'resolve-differs-from-fresh-router:{b[0]}->{a[0]}'
                elif a[0] == 'route' and a[1] != b[1]:
                    sig = 'resolve-differs-from-fresh-router:other-handler'
                elif a[0] == 'route' and a[2] != b[2]:
                    sig = 'resolve-differs-from-fresh-router:params'
                elif a[0] == 'route':
                    sig = 'resolve-differs-from-fresh-router:hooks'
                elif a[0] == '404':
                    sig = 'not-found-answer-differs-from-fresh-router:' + ('hooks' if a[3] != b[3] else 'collected-values')
                else:
                    sig = 'resolve-differs-from-fresh-router:allow'
                ctx.violation(sig, f'{where}: resolve({path!r}, {verb}) real {a} fresh {b}', wit)
                return False
    if real.ever_removed:
        ctx.count('removed_then_probed')
    for name in ('n1', 'n2', 'nx'):
        a, b = ra.router[name], fa.router[name]
        ctx.count('name_probes')
        if (a.pattern if a else None) != (b.pattern if b else None):      # (the rule text of a route is that of its first registration: spellings may differ)
            ctx.violation('lookup-by-name-differs-from-fresh-router', f'{where}: router[{name!r}] real {a} fresh {b}', wit)
            return False
    for rule in RULES:
        try:
            a = ra.router[{rule}]
        except Exception as e:  # noqa
            a = 'raised:' + type(e).__name__
        try:
            b = fa.router[{rule}]
        except Exception as e:  # noqa
            b = 'raised:' + type(e).__name__
        ka = a if isinstance(a, str) else (a.pattern if a else None)
        kb = b if isinstance(b, str) else (b.pattern if b else None)
        # a filter-family sibling occupying the position may make the lookup itself disagree about filters: compare presence by model
        exp = RULES[rule][0] if rule in real.routes else None
        if ka != kb and not (isinstance(ka, str) and ka.startswith('raised')):
            ctx.violation('lookup-by-rule-differs-from-fresh-router', f'{where}: router[{{{rule!r}}}] real {ka} fresh {kb}', wit)
            return False
        if kb is not None and not isinstance(kb, str) and kb != exp and exp is not None:
            ctx.violation('harness-model-disagrees-with-fresh-router', f'{where}: {rule} model {exp} fresh {kb}', wit)
            return False
        # the other spellings of the same lookup: a mapping with the rule, a mapping with the pattern, the RouteKey helper
        from ombott.router.radirouter import RouteKey
        for form, key in (('rule-mapping', {'rule': rule}), ('pattern-mapping', {'pattern': RULES[rule][0]}), ('RouteKey', RouteKey(rule)), ('RouteKey-pattern', RouteKey(pattern=RULES[rule][0]))):
            out = []
            for app_ in (ra, fa):
                try:
                    x = app_.router[dict(key) if form.endswith('mapping') else key]
                    out.append(x.pattern if x else None)
                except Exception as e:  # noqa
                    out.append('raised:' + type(e).__name__)
            ctx.count('lookups_by_mapping_key')
            if out[0] != out[1] and not (isinstance(out[0], str) and out[0].startswith('raised') and 'pattern' not in form):
                ctx.violation('lookup-by-rule-differs-from-fresh-router', f'{where}: router[{form} of {rule!r}] real {out[0]} fresh {out[1]}', wit)
                return False
            # (a lookup by pattern does not look at filters: any registered rule with that pattern answers it)
            exp_p = RULES[rule][0] if any(RULES[r2][0] == RULES[rule][0] for r2 in real.routes) else None
            if 'pattern' in form and out[1] != exp_p:
                ctx.violation('lookup-by-pattern-differs-from-the-registered-routes', f'{where}: router[{form} of {rule!r}] fresh {out[1]} model {exp_p}', wit)
                return False

    def routes_view(app):
        return {p: {m: getattr(rm.handler, 'hid', '?') for m, rm in r.methods.items()} for p, r in app.router.routes.items()}
    if routes_view(ra) != routes_view(fa):
        ctx.violation('routes-index-differs-from-fresh-router', f'{where}: real {routes_view(ra)} fresh {routes_view(fa)}', wit)
        return False
    if set(ra.router.named_routes) != set(fa.router.named_routes):
        ctx.violation('named-routes-differ-from-fresh-router', f'{where}: real {sorted(ra.router.named_routes)} fresh {sorted(fa.router.named_routes)}', wit)
        return False
    hk_real = {p for p in ra.router.hooks}
    # through WSGI: hook firings and handler arguments
    pats = {r: RULES[r][0] for r in real.routes}
    for path in probe_paths():
        del real.log[:]
        del fresh.log[:]
        # every other probe reaches the applications below a mount point: hooks are given prefixes of the routed path (PATH_INFO)
        mount = '/mnt' if len(path) % 2 else ''
        r1 = call_app(ra, make_environ('GET', path, script_name=mount))
        r2 = call_app(fa, make_environ('GET', path, script_name=mount))
        ctx.count('wsgi_probes')
        if mount:
            ctx.count('wsgi_probes_below_a_mount_point')
        l1 = [e for e in real.log if not (e[0] in ('hook', 'scoped-404') and e[1] in real.unspec_ids)]
        l2 = list(fresh.log)
        ctx.count('hook_firings_compared', sum(1 for e in l2 if e[0] == 'hook'))
        ctx.count('scoped_404_handler_calls_compared', sum(1 for e in l2 if e[0] == 'scoped-404'))
        if path in ('/zz', '/zz/top', '/h', '/h/z'):
            ctx.count('hook_only_prefix_probed')
        # a scoped not-found handler whose fate is unspecified (it lay under a removed prefix) answered: the status says nothing
        unspec_answered = any(e[0] == 'scoped-404' and e[1] in real.unspec_ids for e in real.log)
        # ... and so does one that merely lies on the way (it may be the deepest hook position of the probe and thereby decide
        # whether an outer scoped handler is asked at all)
        unspec_on_the_way = any(path.startswith(h.split('<')[0].rstrip('/') or '/') for h in real.unspec)
        if unspec_on_the_way and ([e for e in l1 if e[0] == 'scoped-404'] != [e for e in l2 if e[0] == 'scoped-404'] or r1.code != r2.code) \
                and not [e for e in l2 if e[0] == 'handler'] and not [e for e in l1 if e[0] == 'handler']:
            ctx.count('probes_answered_by_a_handler_of_unspecified_fate')
            continue
        if unspec_answered:
            ctx.count('probes_answered_by_a_handler_of_unspecified_fate')
        if (r1.code if not unspec_answered else r2.code, l1) != (r2.code, l2):
            if [e for e in l1 if e[0] == 'scoped-404'] != [e for e in l2 if e[0] == 'scoped-404']:
                ctx.violation('scoped-404-handler-calls-differ-from-fresh-app', f'{where}: GET {path}: real {r1.code} {l1}, fresh {r2.code} {l2}', wit)
                return False
            sig = 'wsgi-status-differs-from-fresh-app' if r1.code != r2.code else (
                'hook-firings-differ-from-fresh-app' if [e for e in l1 if e[0] == 'hook'] != [e for e in l2 if e[0] == 'hook'] else 'handler-call-differs-from-fresh-app')
            ctx.violation(sig, f'{where}: GET {path}: real {r1.code} {l1}, fresh {r2.code} {l2}', wit)
            return False
        # scoped not-found handlers (literal prefixes): called only for paths under their prefix, with exactly that prefix;
        # and called when theirs is the only hook position on the way of a path no route matches
        calls = [e for e in l1 if e[0] == 'scoped-404']
        for _, pid, prefix, _params in calls:
            h = next((h for h, k in real.hooks404.items() if k == pid), None)
            ctx.count('scoped_404_reference_checked')
            if h is None or not path.startswith(h) or prefix != h:
                ctx.violation('scoped-404-handler-called-outside-its-prefix-or-with-another-prefix', f'{where}: GET {path}: called {pid} (installed at {h}) with prefix {prefix!r}', wit)
                return False
        on_the_way = [h for h in set(real.hooks) | set(real.hooks404) | real.unspec if path.startswith(h.split('<')[0].rstrip('/') or '/')]
        # (with a wildcard route beside the literal way the matcher may end its search on another branch: not judged)
        wild_beside = any('<' in r and path.startswith(r.split('<')[0]) for r in real.routes)
        if (len(on_the_way) == 1 and on_the_way[0] in real.hooks404 and on_the_way[0] not in real.unspec and not wild_beside
                and not [e for e in l1 if e[0] == 'handler'] and r2.code != 405):
            ctx.count('scoped_404_reference_checked')
            if not calls and r1.code == 404:
                ctx.violation('scoped-404-handler-not-called-for-an-unmatched-path-under-its-prefix', f'{where}: GET {path}: {r1.code} {l1}', wit)
                return False
        # (b) reference from the statement, for probes that are the canonical instantiation of a surviving rule
        hs = [e for e in l1 if e[0] == 'handler']
        if r1.code == 200 and hs:
            hid = hs[0][1]
            rule = next((r for r, v in real.routes.items() if hid in v['methods'].values()), None)
            if rule is not None:
                pat = pats[rule]
                poss = pattern_positions(rule, path)
                expect = []
                for h, kid in real.hooks.items():
                    hp = HOOKS[h]
                    if pat.startswith(hp):
                        cut = poss[len(hp) - 1] if hp else 0
                        expect.append((len(hp), ('hook', kid, path[:1 + cut])))
                expect = [e for _, e in sorted(expect, key=lambda t: t[0])]
                got = [e for e in l1 if e[0] == 'hook']
                ctx.count('hook_reference_checked')
                if got != expect:
                    ctx.violation('hook-firings-differ-from-the-statement', f'{where}: GET {path} (rule {rule}): fired {got}, expected {expect}', wit)
                    return False
                if RULES[rule][1] == path and dict(hs[0][2]) != RULES[rule][2]:
                    ctx.violation('handler-arguments-differ', f'{where}: GET {path} (rule {rule}): {hs[0][2]}', wit)
                    return False
    return ok


def run_history(ctx, hist, probe_every=None):
    s = Sys()
    for i, op in enumerate(hist):
        s.apply(ctx, op)
        ctx.count('ops_applied')
        msg = walk_structure(s.app.router.radidict)
        ctx.count('structure_checks')
        if msg:
            ctx.violation('radix-tree-structural-invariant-broken', f'after {hist[:i + 1]}: {msg}', {'unit': {'kind': 'hist', 'history': [list(o) for o in hist[:i + 1]]}})
            return False
        if probe_every and (i + 1) % probe_every == 0 and i + 1 < len(hist):
            if not compare(ctx, s, hist[:i + 1], 'prefix of'):
                return False
    ctx.count('histories')
    if not _STRUCT['usable']:
        ctx.note('structure_monitor_switched_off', _STRUCT.get('why'))
    return compare(ctx, s, hist, 'the')


def exh_unit(ctx, unit):
    ops = alphabet()
    D = unit['depth']
    firsts = [ops[i] for i in unit['first']]
    for f in firsts:
        for d in range(1, D + 1):
            for rest in itertools.product(ops, repeat=d - 1):
                hist = [f, *rest]
                nontriv = any(o[0].startswith('remove') for o in hist)
                ctx.case(None, nontrivial=nontriv)
                if not run_history(ctx, hist) and len(ctx.violations) > 30:
                    return
    ctx.sample({'first_operations_of_this_shard': [list(f) for f in firsts[:3]], 'depth': D, 'alphabet_size': len(ops)})


def random_unit(ctx, unit):
    rng = ctx.rng
    ops = alphabet()
    adds = [o for o in ops if o[0] in ('add', 'add_hook')]
    for i in range(unit['n']):
        L = rng.randint(6, 30)
        hist = [rng.choice(adds) if rng.random() < 0.45 else rng.choice(ops) for _ in range(L)]
        ctx.case(('h', tuple(hist)), nontrivial=True)
        run_history(ctx, hist, probe_every=rng.choice([None, 5, 3]))
        if i % 100 == 0:
            ctx.sample({'random_history': [list(o) for o in hist[:10]], 'length': L})


def scripted_histories():
    """Multi-step combinations that a depth-2 enumeration cannot reach and random histories reach only by luck:
    a route under two or three names removed in every way, re-registered, and the stale names used again;
    hooks installed before the routes that split their node; rejected registrations followed by removals."""
    out = []
    for r, pre in (('/a/<x>', '/a/*'), ('/a', '/a*'), ('/h/x', '/h/*'), ('/ab', '/a*')):
        two = [('add', r, 'GET', 'n1', False), ('add', r, 'PUT', 'n2', False)]
        three = two + [('add', r, 'POST', 'n3', False)]
        for base in (two, three):
            for tail in ([('remove', r)], [('remove_name', 'n1')], [('remove_name', 'n2')], [('remove_prefix', pre)]):
                out.append(base + tail)
                out.append(base + tail + [('add', r, 'GET', None, False)])
                out.append(base + tail + [('add', r, 'GET', None, False), ('remove_name', 'n2')])
                out.append(base + tail + [('add', r, 'GET', 'n1', False), ('remove_name', 'n2'), ('remove_name', 'n1')])
        out.append([('add', r, 'GET', 'n1', False), ('add', r, 'GET', 'n2', True), ('remove', r)])
        out.append([('add', r, 'GET', 'n1', False), ('add', r, 'GET', 'n2', True), ('remove_name', 'n1'), ('add', r, 'POST', None, False)])
    for h in ('/a', '/a/b', '/ab', '/h', '/a/<w>'):
        for r1, r2 in (('/a/b', '/ab'), ('/abc', '/ab'), ('/a/<x>/c', '/a/b/<z>'), ('/h/x', '/h/y'), ('/a/<x>', '/a/b')):
            out.append([('add_hook', h), ('add', r1, 'GET', None, False), ('add', r2, 'GET', None, False)])
            out.append([('add_hook', h), ('add', r1, 'GET', None, False), ('add', r2, 'GET', None, False), ('remove', r1)])
            out.append([('add', r1, 'GET', None, False), ('add_hook', h), ('add', r2, 'GET', None, False), ('remove_hook', h)])
            out.append([('add_hook', h), ('add', r1, 'GET', None, False), ('remove', r1), ('add', r2, 'GET', None, False)])
    for a, b in (('/i/<n:int>/e', '/i/<n:int>.j'), ('/a/<x>/c', '/a/<x>'), ('/b/<p:path>/end', '/b/<p:path>'), ('/<y>/d', '/<y>')):
        for x, y in ((a, b), (b, a)):
            out.append([('add', x, 'GET', None, False), ('add', y, 'GET', None, False), ('remove', x)])
            out.append([('add', x, 'GET', None, False), ('add', y, 'GET', None, False), ('remove', x), ('add', x, 'POST', None, False)])
            out.append([('add', x, 'GET', None, False), ('add', y, 'GET', None, False), ('remove', y), ('remove', x)])
    for r in ('/a/<x>', '/a/<x>/c'):
        out.append([('add_hook', '/a/<w>'), ('add', r, 'GET', None, False), ('add_direct', r, 'PUT')])
        out.append([('add', r, 'GET', None, False), ('add_hook', '/a/<w>'), ('add_direct', r, 'PUT')])
        out.append([('add_hook', '/a/<w>'), ('add', r, 'GET', None, False), ('remove_hook', '/a/<w>'), ('add_direct', r, 'PUT')])
        out.append([('add_hook', '/a/<w>'), ('add', r, 'GET', None, False), ('add_direct', r, 'PUT'), ('remove', r), ('add', r, 'PUT', None, False)])
    for alias, canon in ALIASES.items():
        out.append([('add', canon, 'GET', None, False), ('remove', alias), ('add', canon, 'GET', None, False)])
        out.append([('add', alias, 'GET', None, False), ('remove', canon), ('add', alias, 'POST', None, False)])
        out.append([('add', canon, 'GET', 'n1', False), ('add', alias, 'POST', None, False), ('remove_name', 'n1'), ('add', alias, 'GET', None, False)])
        out.append([('add', canon, 'GET', None, False), ('remove', alias), ('add', alias, 'GET', None, False), ('remove', canon), ('add', canon, 'PUT', None, False)])
    for named, other in ((SEL1, SEL0), (SEL1, SEL2), (SEL0, SEL1), (SEL2, SEL0)):
        base = [('add', named, 'GET', 'n1', False), ('add', other, 'GET', None, False)]
        out.append(base + [('remove_name', 'n1')])
        out.append(base + [('remove', named)])
        out.append(base + [('remove_name', 'n1'), ('add', named, 'POST', 'n2', False), ('remove_name', 'n2')])
        out.append(base[::-1] + [('remove', other)])
        out.append(base + [('remove_prefix', '/s/*')])
    for r1, r2, pre in (('/a/<x>', '/a/b', '/a/*'), ('/h/x', '/h/y', '/h/*'), ('/a', '/ab', '/a*')):
        out.append([('add', r1, 'GET', None, False), ('add', r2, 'GET', 'n1', False), ('remove_hook', pre)])
        out.append([('add_hook', '/a'), ('add', r1, 'GET', None, False), ('remove_hook', pre), ('add', r2, 'POST', None, False)])
    for h in ('/a', '/h'):
        same = ('add_hook', h, 'same')
        out.append([same, ('remove_hook', h), same])
        out.append([same, same])
        out.append([same, ('add_hook', h), same])
        out.append([('add', '/a/<x>', 'GET', None, False), same, ('remove_hook', h), same, ('add', '/h/x', 'GET', None, False)])
        out.append([same, ('remove_prefix', h + '*'), same])
        out.append([same, ('remove_hook', h), ('add_hook', h), ('remove_hook', h), same])
    # the process-wide population of filters grows between the operations on a rule with filters
    for r, r2 in (('/i/<n:int>/e', '/i/<n:int>.j'), ('/a/<n:int>', '/a/<x>/c'), (SEL1, SEL0), ('/b/<p:path>/end', '/b/<p:path>')):
        for N in (40, 150, 300):
            out.append([('add', r, 'GET', 'n1', False), ('noise', N), ('add', r, 'POST', None, False), ('noise', N), ('remove', r)])
            out.append([('add', r, 'GET', None, False), ('add', r2, 'GET', None, False), ('noise', N), ('remove', r), ('noise', N), ('add', r2, 'PUT', 'n2', False)])
            out.append([('add', r, 'GET', None, False), ('noise', N), ('add_direct', r, 'PUT'), ('noise', N), ('remove', r), ('add', r, 'GET', None, False)])
    for r in ('/a/<x>', '/h/x'):
        out.append([('add', r, 'GET', None, False), ('add', r, ('PATCH', 'GET'), 'n1', False), ('remove_name', 'n1'), ('remove', r)])
        out.append([('add', r, 'GET', 'n1', False), ('add', '/ab', 'GET', 'n1', False), ('remove_name', 'n1'), ('add', '/ab', 'GET', 'n1', False)])
    return out


def scripted_unit(ctx, unit):
    hs = scripted_histories()
    for hist in hs:
        ctx.case(('scripted', tuple(map(str, hist))), nontrivial=True)
        ctx.count('scripted_histories')
        run_history(ctx, hist, probe_every=1)
    ctx.sample({'scripted_histories': len(hs), 'example': [list(map(str, o)) for o in hs[5]]})


def plan(tier, seed):
    n = len(alphabet())
    if tier == 'quick':
        sh = 8
        return ([{'kind': 'exh', 'depth': 2, 'first': list(range(i, n, sh))} for i in range(sh)] + [{'kind': 'random', 'n': 120, 'sub': i} for i in range(4)]
                + [{'kind': 'scripted'}])
    return [{'kind': 'exh', 'depth': 3, 'first': [i]} for i in range(n)] + [{'kind': 'random', 'n': 1500, 'sub': i} for i in range(16)] + [{'kind': 'scripted'}]


def run_unit(ctx, unit):
    k = unit['kind']
    if k == 'exh':
        exh_unit(ctx, unit)
    elif k == 'random':
        random_unit(ctx, unit)
    elif k == 'scripted':
        scripted_unit(ctx, unit)
    else:
        hist = [tuple(o) for o in unit['history']]
        run_history(ctx, hist)
