"""C06 - multipart parsing is independent of how the body is split into reads.

Metamorphic monitor: for a well-formed multipart body (and every prefix of it) the result of
feeding it to the real MultipartMarkup in one piece - (sections, type of error) - is the oracle
for every division of the same bytes into chunks: every single cut, every pair of cuts,
byte-at-a-time, and regular cuts for every buffer size.  An invariant monitor wrapped around
MultipartMarkup.parse checks offsets after every chunk.  Second observation point: the markup
built while Request.body is being buffered, with max_memfile_size swept over 1..len+1 under a
fragmenting wsgi.input.  The generator knows the role of every byte, so each cut is classified
by the parser state it forces to be carried across a read boundary.
"""
import itertools
from vmon.wsgi import make_environ, RecStream

RULE = ('bodies: boundary strings (1..70 chars, made of dashes, with repeating prefixes), 0..4 parts, 1..3 header lines, data rich in CR LF '
        'dashes and proper prefixes of the delimiter, with/without leading CRLF, epilogue in {none, CRLF, text, look-alike}; for every prefix of '
        'every body: all single cuts and all pairs of cuts (complete), byte-at-a-time, regular cuts for every size; plus Request.body buffering '
        'with every max_memfile_size and seeded short reads. Non-trivial = at least one cut falls inside a framing element (delimiter, CRLF after '
        'it, CRLFCRLF, final hyphens) or a look-alike; distinct = distinct (body, prefix length, cut positions).')
PYOPT = {'quick': 1, 'thorough': 1}     # one unit of every kind is also served by an interpreter started with -O (assert statements compiled out)
REQUIRED = ['units_run_under_python_-O', 'cut_inside_delimiter', 'cut_inside_start_boundary', 'cut_between_delimiter_and_crlf', 'cut_inside_delimiter_crlf', 'cut_inside_headers_end',
            'cut_between_final_hyphens', 'cut_after_closing_delimiter', 'cut_inside_epilogue', 'cut_inside_lookalike', 'cut_inside_headers',
            'cut_inside_data', 'prefix_cases', 'invariant_checks', 'request_body_sweeps', 'byte_at_a_time', 'regular_cuts', 'double_cuts', 'chunked_transfer_sweeps', 'short_transfer_chunk_beside_a_long_one', 'bodies_with_over_a_thousand_parts']
EXHAUSTIVE = {'quick': False, 'thorough': False,
              'quick_note': 'for each listed body: every prefix x every single cut and every pair of cuts is enumerated completely',
              'thorough_note': 'for each listed body: every prefix x every single cut and every pair of cuts is enumerated completely'}
ASSUMPTIONS = ['bodies are well-formed: data never contains the full delimiter, header blocks contain no bare CR or LF',
               'the one-piece parse by the same code is the oracle (metamorphic); what it should be in absolute terms is C07/C12']


def gen_body(rng, boundary=None, nparts=None, small=False):
    """-> (bytes, roles) ; roles[i] in sb (start boundary) / lead (leading CRLF) / delim / dcr / dlf (CRLF after a delimiter) /
    hdr / he (CRLFCRLF) / data / look (delimiter look-alike inside data) / fh (final hyphens) / tail (CRLF after them) / epi"""
    if boundary is None:
        boundary = rng.choice(['b', 'B0', '-', '--', '---', 'aaaa', 'abab', 'a-a-', 'xyzxy', '----WebKitFormBoundary7MA4YWxk', 'x' * 70,
                               "a'b+c_d", '0', '-a', 'ab-', '\n'[:0] + 'q' * rng.randint(1, 12)])
    b = boundary.encode()
    delim = b'\r\n--' + b
    out = bytearray()
    roles = []

    def put(bs, role):
        out.extend(bs)
        roles.extend([role] * len(bs))

    if nparts is None:
        nparts = rng.choice([0, 1, 1, 2, 2, 3, 4])
    if rng.random() < 0.3:
        put(b'\r\n', 'lead')
    put(b'--' + b, 'sb')
    names = ['a', 'file', 'é', 'x-y']
    for pi in range(nparts):
        put(b'\r', 'dcr')
        put(b'\n', 'dlf')
        lines = []
        nm = rng.choice(names)
        if rng.random() < 0.5:
            lines.append(f'Content-Disposition: form-data; name="{nm}"')
        else:
            lines.append(f'Content-Disposition: form-data; name="{nm}"; filename="f{pi}.bin"')
            if rng.random() < 0.7:
                lines.append('Content-Type: application/octet-stream')
        if rng.random() < 0.2 and not small:
            lines.append('X-Extra: ' + rng.choice(['1', '--' + boundary, 'a-b']))
        put('\r\n'.join(lines).encode(), 'hdr')
        put(b'\r\n\r\n', 'he')
        # data
        nseg = rng.randint(0, 3 if small else 6)
        for _ in range(nseg):
            k = rng.random()
            if k < 0.35:
                cut = rng.randint(1, len(delim) - 1)
                piece = delim[:cut]
                # make sure the look-alike does not accidentally complete the delimiter with what follows
                put(piece, 'look')
                put(rng.choice([b'X', b'\r', b'\n', b'-', b'!']) if piece[-1:] != b'\r' else b'X', 'data')
            elif k < 0.6:
                put(bytes(rng.choice(b'\r\n-') for _ in range(rng.randint(1, 5))), 'data')
            else:
                put(bytes(rng.choice(b'abc\r\n-' + b) for _ in range(rng.randint(1, 8))), 'data')
        # the data must not contain the full delimiter and must not end so that data+delimiter shifts the match
        put(delim, 'delim')
    put(b'--', 'fh')
    epi = rng.choice(['none', 'crlf', 'crlf', 'text', 'look', 'blank_lines', 'headers_like', 'no_crlf'])
    if epi == 'crlf':
        put(b'\r\n', 'tail')
    elif epi == 'text':
        put(b'\r\n', 'tail')
        put(b'epilogue text\r\n', 'epi')
    elif epi == 'look':
        put(b'\r\n', 'tail')
        put(b'junk' + delim[:-1] + b'!\r\n--', 'epi')
    elif epi == 'blank_lines':
        # RFC 2046: the epilogue is to be ignored, whatever it contains
        put(b'\r\n', 'tail')
        put(b'\r\n\r\nmore\r\n\r\n', 'epi')
    elif epi == 'headers_like':
        put(b'\r\n', 'tail')
        put(b'X-Epilogue: 1\r\n\r\nbody-like\r\n' + delim[:-1], 'epi')
    elif epi == 'no_crlf':
        put(b'trailing junk right after the close delimiter\r\n\r\n', 'epi')
    body = bytes(out)
    # reject bodies in which the delimiter occurs somewhere else than the generator put it
    pos = -1
    want = [i for i in range(len(roles)) if roles[i] == 'delim' and (i == 0 or roles[i - 1] != 'delim')]
    found = []
    while True:
        pos = body.find(delim, pos + 1)
        if pos < 0:
            break
        found.append(pos)
    first_close = next((i for i, r in enumerate(roles) if r == 'fh'), len(body))
    found = [f for f in found if f < first_close]
    if found != want:
        return None
    return body, roles, boundary


def one_piece(boundary, data):
    from ombott.request_pkg.multipart import MultipartMarkup
    m = MultipartMarkup(boundary)
    m.parse(data)
    return result_of(m)


def result_of(m):
    return [[n, list(se)] for n, se in m.markups], (type(m.error).__name__ if m.error is not None else None)


class InvariantBroken(Exception):
    pass


def feed(ctx, boundary, chunks, check_invariants=True):
    """Feed chunks to a fresh MultipartMarkup, asserting the offset invariants after every chunk."""
    from ombott.request_pkg.multipart import MultipartMarkup
    m = MultipartMarkup(boundary)
    fed = 0
    for c in chunks:
        m.parse(c)
        fed += len(c)
        if check_invariants:
            msg = invariants(m, fed)
            if msg:
                raise InvariantBroken(msg)
    return m


def invariants(m, fed):
    mk = getattr(m, '_markuper', None)
    if mk is None or not hasattr(mk, 'abspos'):
        return None
    if m.error is None and not getattr(mk, 'stopped', False):
        if mk.abspos != fed:
            return f'abspos {mk.abspos} != bytes fed {fed}'
        tr, tl = getattr(mk, 'trest', None), getattr(mk, 'trest_len', None)
        if tr is not None:
            if (tl is not None and tl != len(tr)) or not (mk.token.endswith(tr) or mk.boundary.endswith(tr)) or len(tr) >= len(mk.token) + 1 or not tr:
                return f'carried delimiter remainder {tr!r} (len field {tl}) is not a proper suffix of the delimiter'
    prev_end = 0
    for k, (name, (s, e)) in enumerate(m.markups):
        if name != ('data' if k % 2 == 0 else 'headers'):
            return f'section {k} is {name}: sections do not alternate data/headers'
        if not (s <= e or (k == 0 and e <= 0)):
            return f'section {k} {name} has start {s} > end {e}'
        if k and s < prev_end:
            return f'section {k} {name} [{s}:{e}] overlaps the previous one ending at {prev_end}'
        if e > fed:
            return f'section {k} {name} [{s}:{e}] reaches beyond the {fed} bytes fed'
        prev_end = max(prev_end, e)
    return None


CUT_CLASS = {
    'sb': 'cut_inside_start_boundary', 'delim': 'cut_inside_delimiter', 'he': 'cut_inside_headers_end', 'fh': 'cut_between_final_hyphens',
    'epi': 'cut_inside_epilogue', 'look': 'cut_inside_lookalike', 'hdr': 'cut_inside_headers', 'data': 'cut_inside_data',
}


def classify(ctx, roles, n, cuts):
    nontriv = False
    for p in cuts:
        if p <= 0 or p >= n:
            continue
        a, b = roles[p - 1], roles[p]
        if a == b and a in CUT_CLASS:
            ctx.count(CUT_CLASS[a])
            if a in ('sb', 'delim', 'he', 'fh', 'look'):
                nontriv = True
        elif a in ('delim', 'sb') and b == 'dcr':
            ctx.count('cut_between_delimiter_and_crlf')
            nontriv = True
        elif a == 'dcr' and b == 'dlf':
            ctx.count('cut_inside_delimiter_crlf')
            nontriv = True
        elif a == 'fh' and b in ('tail', 'epi'):
            ctx.count('cut_after_closing_delimiter')
            nontriv = True
        elif a == 'tail':
            ctx.count('cut_after_closing_delimiter')
        elif a == 'delim' and b == 'fh':
            ctx.count('cut_between_delimiter_and_crlf')
            nontriv = True
    return nontriv


def compare(ctx, body, boundary, roles, L, cuts, oracle, how):
    data = body[:L]
    pts = [0] + list(cuts) + [L]
    chunks = [data[a:b] for a, b in zip(pts, pts[1:])]
    wit = {'unit': {'kind': 'one', 'boundary': boundary, 'body': body.decode('latin1'), 'L': L, 'cuts': list(cuts)}}
    try:
        m = feed(ctx, boundary, chunks)
        ctx.count('invariant_checks', len(chunks))
    except InvariantBroken as e:
        ctx.violation('multipart-offset-invariant-broken', f'{how}: body {body!r} prefix {L} cuts {list(cuts)}: {e}', wit)
        return False
    got = result_of(m)
    if got != oracle:
        # reduce to a smallest subset of the cuts that still disagrees, so that the signature names the carried state
        if len(cuts) > 1:
            for k in (1, 2):
                for sub in itertools.combinations(cuts, k):
                    if len(sub) == len(cuts):
                        continue
                    ps = [0] + list(sub) + [L]
                    try:
                        g2 = result_of(feed(ctx, boundary, [data[a:b] for a, b in zip(ps, ps[1:])], check_invariants=False))
                    except Exception:  # noqa
                        continue
                    if g2 != oracle:
                        cuts, got = sub, g2
                        wit = {'unit': {'kind': 'one', 'boundary': boundary, 'body': body.decode('latin1'), 'L': L, 'cuts': list(cuts)}}
                        break
                else:
                    continue
                break
        st = state_at_cut(roles, cuts, L)
        kind = 'error-differs' if got[1] != oracle[1] else 'sections-differ'
        ctx.violation(f'result-depends-on-read-division:{kind}:{st}',
                      f'{how}: boundary {boundary!r} body {body!r} prefix {L} cuts {list(cuts)}: one piece {oracle}, divided {got}', wit)
        return False
    return True


def state_at_cut(roles, cuts, L):
    out = []
    for p in cuts:
        if 0 < p < L:
            a, b = roles[p - 1], roles[p]
            out.append(a if a == b else f'{a}|{b}')
    return ','.join(sorted(set(out))) or 'none'


def body_unit(ctx, unit):
    rng = ctx.rng
    made = 0
    tries = 0
    while made < unit['bodies'] and tries < unit['bodies'] * 20:
        tries += 1
        g = gen_body(rng, small=True) if unit.get('small', True) else gen_body(rng)
        if g is None:
            continue
        body, roles, boundary = g
        n = len(body)
        if n > unit['maxlen'] or n < 12:
            continue
        made += 1
        ctx.sample({'boundary': boundary, 'body': body.decode('latin1'), 'one_piece_result': one_piece(boundary, body)})
        ok = True
        for L in range(0, n + 1):
            oracle = one_piece(boundary, body[:L])
            ctx.count('prefix_cases')
            # all single cuts
            for c in range(1, L):
                nt = classify(ctx, roles, L, (c,))
                ctx.case(None, nontrivial=nt)
                ok = compare(ctx, body, boundary, roles, L, (c,), oracle, 'single cut') and ok
            # all double cuts
            if unit.get('double', True):
                for c1 in range(1, L):
                    for c2 in range(c1 + 1, L):
                        nt = classify(ctx, roles, L, (c1, c2))
                        ctx.case(None, nontrivial=nt)
                        ctx.count('double_cuts')
                        if not compare(ctx, body, boundary, roles, L, (c1, c2), oracle, 'double cut'):
                            ok = False
            # byte at a time and regular cuts (full body and a few prefixes)
            if L == n or L % 7 == 0:
                cuts = tuple(range(1, L))
                ctx.case(None, nontrivial=True)
                ctx.count('byte_at_a_time')
                compare(ctx, body, boundary, roles, L, cuts, oracle, 'byte at a time')
                for size in range(2, max(3, L)):
                    cuts = tuple(range(size, L, size))
                    if cuts:
                        ctx.case(None, nontrivial=classify(ctx, roles, L, cuts))
                        ctx.count('regular_cuts')
                        compare(ctx, body, boundary, roles, L, cuts, oracle, f'regular cuts of {size}')
            if len(ctx.violations) > 40:
                return
        # through Request.body with every buffer size and a fragmenting stream
        request_sweep(ctx, body, boundary, roles, rng)


def request_sweep(ctx, body, boundary, roles, rng):
    import ombott
    n = len(body)
    oracle = one_piece(boundary, body)
    for B in range(1, n + 2):
        for policy in ('full', ('rand', rng)):
            st = RecStream(body, policy)
            env = make_environ('POST', '/', stream=st, content_length=n, content_type=f'multipart/form-data; boundary={boundary}')
            rq = ombott.Request(env, config={'max_memfile_size': B})
            try:
                b = rq.body
            except Exception as e:  # noqa
                ctx.violation(f'request-body-raises-{type(e).__name__}', f'buffer {B}: {e!r} body {body!r}', None)
                continue
            m = getattr(b, 'ombott_markup', None)
            ctx.count('request_body_sweeps')
            ctx.case(None, nontrivial=True)
            if m is None:
                ctx.violation('request-body-has-no-markup-for-multipart', f'buffer {B} boundary {boundary!r}', None)
                continue
            got = result_of(m)
            if got != oracle:
                ctx.violation('result-depends-on-read-division:request-body-buffer-size',
                              f'max_memfile_size {B} boundary {boundary!r} body {body!r}: one piece {oracle}, buffered {got}; reads {st.reads[:8]}',
                              {'unit': {'kind': 'one', 'boundary': boundary, 'body': body.decode('latin1'), 'L': n, 'cuts': [], 'B': B}})
                return


def chunked_sweep(ctx, body, boundary, rng):
    """The same form delivered under chunked transfer framing: the division into transfer chunks (tiny ones, long ones, a tiny
    one followed by a long one, sizes around powers of two) must not change the result either."""
    import ombott
    from vmon.wsgi import chunk_encode
    big = (f'--{boundary}\r\nContent-Disposition: form-data; name="big"; filename="b.txt"\r\n\r\n'.encode('latin1')
           + bytes(rng.choice(b'abcdefghij \n') for _ in range(rng.choice([300, 700, 1500]))) + b'\r\n')
    for data in (body, big + body):
        oracle = one_piece(boundary, data)
        n = len(data)
        patterns = [[1], [3, 200], [200, 3], [5, 127, 128, 129, 2, 300], [64, 1, 1, 256], [n], [max(1, n - 1), 1], [1, max(1, n - 1)], [7, 1000], [130, 4, 130, 4]]
        patterns += [[rng.choice([rng.randint(1, 20), rng.randint(100, 400)]) for _ in range(rng.randint(2, 9))] for _ in range(10)]
        for sizes in patterns:
            enc = chunk_encode(data, sizes=sizes)
            st = RecStream(enc, rng.choice(['full', ('rand', rng)]))
            env = make_environ('POST', '/', stream=st, content_length=None, chunked=True, content_type=f'multipart/form-data; boundary={boundary}')
            rq = ombott.Request(env, config={'max_memfile_size': rng.choice([64, 1024, 102400])})
            ctx.count('chunked_transfer_sweeps')
            if min(sizes) < 20 and max(sizes) >= 128:
                ctx.count('short_transfer_chunk_beside_a_long_one')
            ctx.case(None, nontrivial=True)
            wit = {'unit': {'kind': 'note', 'boundary': boundary, 'body': data.decode('latin1'), 'transfer_chunk_sizes': sizes}}
            try:
                b = rq.body
            except Exception as e:  # noqa
                ctx.violation(f'request-body-raises-{type(e).__name__}:chunked-transfer', f'transfer chunk sizes {sizes}: {e!r} body {data[:80]!r}', wit)
                return
            m = getattr(b, 'ombott_markup', None)
            got = result_of(m) if m is not None else None
            b.seek(0)
            if b.read() != data:
                ctx.violation('chunked-transfer:stored-body-differs', f'transfer chunk sizes {sizes}', wit)
                return
            if got != oracle:
                ctx.violation('result-depends-on-read-division:transfer-chunk-sizes',
                              f'transfer chunk sizes {sizes} boundary {boundary!r} body {data[:120]!r}...: one piece {oracle}, chunked {got}', wit)
                return


def many_parts_unit(ctx, unit):
    """Forms with very many parts (over a thousand): the result does not depend on the division either, whatever the count."""
    import ombott
    rng = ctx.rng
    for count in unit['counts']:
        boundary = 'ManyB' + 'x' * rng.randint(0, 20)
        body = b''.join(f'--{boundary}\r\nContent-Disposition: form-data; name="f{i}"\r\n\r\nv{i}\r\n'.encode() for i in range(count)) + f'--{boundary}--\r\n'.encode()
        n = len(body)
        oracle = one_piece(boundary, body)
        ctx.count('bodies_with_over_a_thousand_parts' if count > 1000 else 'bodies_with_many_parts')
        if oracle[1] is not None:
            ctx.count('many_parts_refused_in_one_piece(compared all the same)')     # a limit is not this property's business; its dependence on the division is
        divisions = [(n // 2,), (n // 3, 2 * n // 3), tuple(range(1000, n, 1000)), tuple(range(4096, n, 4096)), tuple(sorted(rng.sample(range(1, n), 5))),
                     tuple(range(102400, n, 102400)) or (n - 7,)]
        for cuts in divisions:
            pts = [0] + list(cuts) + [n]
            chunks = [body[a:b] for a, b in zip(pts, pts[1:])]
            ctx.case(('many', count, len(cuts)), nontrivial=True)
            try:
                m = feed(ctx, boundary, chunks, check_invariants=False)
                got = result_of(m)
            except InvariantBroken as e:
                ctx.violation('multipart-offset-invariant-broken', f'{count} parts, {len(cuts)} cuts: {e}', {'unit': {'kind': 'note', 'parts': count, 'cuts': list(cuts)[:10]}})
                continue
            if got != oracle:
                ctx.violation('result-depends-on-read-division:many-parts', f'{count} parts, cuts {list(cuts)[:6]}...: one piece -> {len(oracle[0])} sections error {oracle[1]}; divided -> {len(got[0])} sections error {got[1]}',
                              {'unit': {'kind': 'note', 'parts': count, 'cuts': list(cuts)[:10]}})
        # and through the request object with the default buffer and a small one
        for B in (102400, 4000):
            env = make_environ('POST', '/', stream=RecStream(body, ('rand', rng)), content_length=n, content_type=f'multipart/form-data; boundary={boundary}')
            rq = ombott.Request(env, config={'max_memfile_size': B})
            try:
                got = result_of(rq.body.ombott_markup)
            except Exception as e:  # noqa
                ctx.violation(f'request-body-raises-{type(e).__name__}:many-parts', f'{count} parts buffer {B}: {e!r}', {'unit': {'kind': 'note', 'parts': count, 'B': B}})
                continue
            if got != oracle:
                ctx.violation('result-depends-on-read-division:many-parts', f'{count} parts through Request.body with buffer {B}: {len(got[0])} sections error {got[1]} instead of {len(oracle[0])}',
                              {'unit': {'kind': 'note', 'parts': count, 'B': B}})
    ctx.sample({'part_counts': unit['counts']})


def random_unit(ctx, unit):
    """Larger bodies: single cuts + random multi-cuts."""
    rng = ctx.rng
    made = 0
    while made < unit['bodies']:
        g = gen_body(rng)
        if g is None:
            continue
        body, roles, boundary = g
        n = len(body)
        made += 1
        oracle = one_piece(boundary, body)
        for c in range(1, n):
            ctx.case(None, nontrivial=classify(ctx, roles, n, (c,)))
            compare(ctx, body, boundary, roles, n, (c,), oracle, 'single cut')
        for _ in range(60):
            k = rng.randint(2, min(8, n - 1))
            cuts = tuple(sorted(rng.sample(range(1, n), k)))
            L = rng.choice([n, n, rng.randint(cuts[-1] + 1, n)])
            ctx.case((body, L, cuts), nontrivial=classify(ctx, roles, L, cuts))
            compare(ctx, body, boundary, roles, L, cuts, one_piece(boundary, body[:L]) if L != n else oracle, 'random cuts')
        if made % 25 == 0:
            request_sweep(ctx, body, boundary, roles, rng)
        if made % 6 == 0:
            chunked_sweep(ctx, body, boundary, rng)
        if made % 40 == 1:
            ctx.sample({'boundary': boundary, 'body': body.decode('latin1')[:300], 'len': n})


def plan(tier, seed):
    if tier == 'quick':
        return [{'kind': 'body', 'bodies': 1, 'maxlen': 75, 'sub': i} for i in range(8)] + [{'kind': 'random', 'bodies': 60, 'sub': i} for i in range(4)] + [{'kind': 'many', 'counts': [300, 1000, 1001, 1500]}]
    return ([{'kind': 'body', 'bodies': 2, 'maxlen': 110, 'sub': i} for i in range(32)]
            + [{'kind': 'body', 'bodies': 1, 'maxlen': 200, 'small': False, 'double': True, 'sub': i} for i in range(16)]
            + [{'kind': 'random', 'bodies': 400, 'sub': i} for i in range(16)] + [{'kind': 'many', 'counts': [c]} for c in (255, 256, 257, 999, 1000, 1001, 1023, 1024, 1025, 2500, 5000, 10001)])


def run_unit(ctx, unit):
    k = unit['kind']
    if k == 'body':
        body_unit(ctx, unit)
    elif k == 'random':
        random_unit(ctx, unit)
    elif k == 'many':
        many_parts_unit(ctx, unit)
    elif k == 'note':
        print('  witness:', unit)
    else:
        body = unit['body'].encode('latin1')
        L = unit['L']
        cuts = unit['cuts']
        oracle = one_piece(unit['boundary'], body[:L])
        pts = [0] + list(cuts) + [L]
        print(f'  chunks: {[body[a:b] for a, b in zip(pts, pts[1:])]}\n  one piece: {oracle}')
        try:
            m = feed(ctx, unit['boundary'], [body[a:b] for a, b in zip(pts, pts[1:])])
            print(f'  divided:   {result_of(m)}')
            if result_of(m) != oracle:
                ctx.violation('replayed', 'result depends on read division', None)
        except InvariantBroken as e:
            ctx.violation('replayed', str(e), None)
