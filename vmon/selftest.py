"""setup self-test: the harness imports, every property module plans both tiers,
and a few monitors fire on built-in faulty stubs (guards against a blind monitor)."""
import os
import sys
import importlib
import pkgutil


def main():
    from vmon import runner
    runner._prep_path()
    import ombott
    root = os.path.realpath(runner.REPO)
    assert os.path.realpath(ombott.__file__).startswith(root + os.sep), ombott.__file__
    import vmon.props as P
    n = 0
    for m in pkgutil.iter_modules(P.__path__):
        if not m.name.startswith('c'):
            continue
        mod = importlib.import_module('vmon.props.' + m.name)
        for tier in ('quick', 'thorough'):
            units = mod.plan(tier, 0)
            assert units, (m.name, tier)
        st = getattr(mod, 'selftest', None)
        if st:
            st()
        n += 1
    # RecStream honours its policies
    from vmon.wsgi import RecStream
    s = RecStream(b'abcdef', ('list', [2, 1], 'one'))
    assert [s.read(4), s.read(4), s.read(4)] == [b'ab', b'c', b'd']
    print(f'selftest ok: {n} property modules, ombott from {ombott.__file__}')
    return 0
