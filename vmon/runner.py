"""Runner for the ombott runtime monitors.

    ./check <ID> [quick|thorough] [--jobs N] [--replay FILE]

A property module (vmon/props/cXX.py) provides

    RULE        str   how cases are generated and what makes one non-trivial
    LEVEL       str   evidence level (default 'exploration')
    REQUIRED    list  reach counters that must be non-zero, else the run is inconclusive
    plan(tier, seed) -> list of JSON-able work units (each run in its own subprocess)
    run_unit(ctx, unit)            runs the unit, reporting through ctx
    replay(ctx, witness)           optional: re-runs one witness (default: run_unit on witness['unit'])
    EXHAUSTIVE  {tier: bool}       optional

Verdicts: exit 0 held (known findings listed), 1 violation, 2 inconclusive.
"""
import sys
import os
import json
import time
import random
import hashlib
import importlib
import subprocess
import tempfile
import shutil
import traceback
from collections import Counter

HERE = os.path.dirname(os.path.dirname(os.path.abspath(__file__)))
REPO = os.environ.get('VERIF_REPO', '/repo')
PY = sys.executable

MAX_SAMPLES = 12
MAX_DISTINCT_MERGE = 3_000_000


def _prep_path():
    # the code under test is always the working tree of $VERIF_REPO
    if REPO not in sys.path:
        sys.path.insert(0, REPO)
    if HERE not in sys.path:
        sys.path.insert(0, HERE)


def h64(obj) -> int:
    if not isinstance(obj, (bytes, bytearray)):
        obj = repr(obj).encode('utf8', 'surrogatepass')
    return int.from_bytes(hashlib.blake2b(obj, digest_size=8).digest(), 'big')


class Inconclusive(Exception):
    pass


class Ctx:
    """Collects what the monitors observed inside one worker."""

    def __init__(self, pid, tier, seed, unit_index=0):
        self.pid = pid
        self.tier = tier
        self.seed = seed
        self.rng = random.Random(f'{pid}/{seed}/{unit_index}')
        self.counters = Counter()
        self.evaluations = 0
        self.distinct = set()
        self.distinct_by_construction = 0
        self.samples = []
        self.violations = []
        self.notes = {}
        self.inconclusive = []
        self.replaying = False

    # -- counting -----------------------------------------------------------
    def case(self, key=None, nontrivial=True, n=1):
        """One evaluated case. `key` identifies it for distinct counting; when the
        cases of a unit are distinct by construction (an enumeration) pass key=None."""
        self.evaluations += n
        if nontrivial:
            if key is None:
                self.distinct_by_construction += n
            else:
                self.distinct.add(h64(key))

    def count(self, name, n=1):
        self.counters[name] += n

    def sample(self, obj, force=False):
        if force or len(self.samples) < MAX_SAMPLES:
            self.samples.append(obj)

    def note(self, key, value):
        self.notes[key] = value

    def note_max(self, key, value):
        if key not in self.notes or value > self.notes[key]:
            self.notes[key] = value

    # -- verdicts -----------------------------------------------------------
    def violation(self, sig, msg, witness=None):
        """sig: mechanism signature (never a seed or random value)."""
        self.counters['violations_raw'] += 1
        if sys.flags.optimize and isinstance(witness, dict) and isinstance(witness.get('unit'), dict):
            witness['unit']['pyopt'] = True        # the replay must run under -O as well
            witness['unit']['hashseed'] = os.environ.get('PYTHONHASHSEED')
            witness['unit']['c_locale'] = sys.getfilesystemencoding().lower() in ('ascii', 'ansi_x3.4-1968')
            msg = f'[python -O, PYTHONHASHSEED={os.environ.get("PYTHONHASHSEED")}, file-system encoding {sys.getfilesystemencoding()}] ' + msg
        per_sig = sum(1 for v in self.violations if v['sig'] == sig)
        if per_sig < 3:
            self.violations.append({'sig': sig, 'msg': msg, 'witness': witness})
        else:
            self.counters['violations_dropped_same_sig'] += 1
        if self.replaying:
            print(f'  violation sig={sig}\n    {msg}')

    def set_inconclusive(self, reason):
        self.inconclusive.append(reason)

    def dump(self):
        d = sorted(self.distinct)
        return dict(
            counters=dict(self.counters), evaluations=self.evaluations,
            distinct=d if len(d) <= MAX_DISTINCT_MERGE else None,
            distinct_n=len(d), distinct_by_construction=self.distinct_by_construction,
            samples=self.samples, violations=self.violations, notes=self.notes,
            inconclusive=self.inconclusive,
        )


# --------------------------------------------------------------------------
def load_mod(pid):
    _prep_path()
    return importlib.import_module(f'vmon.props.{pid.lower()}')


def worker_main(pid, tier, seed, unit_file, out_file):
    _prep_path()
    with open(unit_file) as f:
        job = json.load(f)
    mod = load_mod(pid)
    pre = getattr(mod, 'pre_import', None)
    if pre:
        pre()       # instrumentation that must be in place before the code under test is imported
    import ombott
    root = os.path.realpath(REPO)
    if not os.path.realpath(ombott.__file__).startswith(root + os.sep):
        raise RuntimeError(f'ombott imported from {ombott.__file__}, expected under {root}')
    cov = None
    if os.environ.get('VERIF_COVERAGE'):
        # development aid: which lines of the code under test the workloads reach at all (each line reported once, then disabled)
        cov = set()
        root_pkg = os.path.join(root, 'ombott') + os.sep
        mon = sys.monitoring

        def _on_line(code, line):
            if code.co_filename.startswith(root_pkg):
                cov.add((code.co_filename[len(root_pkg):], line))
            return mon.DISABLE
        mon.use_tool_id(1, 'vmon-coverage')
        mon.register_callback(1, mon.events.LINE, _on_line)
        mon.set_events(1, mon.events.LINE)
    ctx = Ctx(pid, tier, seed, job['index'])
    if sys.flags.optimize:
        ctx.count('units_run_under_python_-O')
    if sys.getfilesystemencoding().lower() in ('ascii', 'ansi_x3.4-1968'):
        ctx.count('units_run_with_an_ascii_locale')
    from vmon.vclock import real_time
    t0 = real_time()
    try:
        mod.run_unit(ctx, job['unit'])
    except Inconclusive as e:
        ctx.set_inconclusive(str(e))
    except BaseException:
        ctx.set_inconclusive('worker crashed: ' + traceback.format_exc()[-1500:])
    try:
        from vmon import wsgi as _w
        for k, v in _w.flavour_counts.items():
            ctx.count('environ_as_built_by_' + k, v)       # which servers' extra environ keys the requests carried
    except Exception:  # noqa
        pass
    res = ctx.dump()
    if cov is not None:
        d = os.environ['VERIF_COVERAGE']
        os.makedirs(d, exist_ok=True)
        with open(os.path.join(d, f'{pid}-{job["index"]}-{os.getpid()}.json'), 'w') as f:
            json.dump(sorted(cov), f)
    res['wall_s'] = real_time() - t0
    with open(out_file, 'w') as f:
        json.dump(res, f)


def load_findings():
    p = os.path.join(HERE, 'known_findings.json')
    if not os.path.exists(p):
        return []
    with open(p) as f:
        return json.load(f).get('findings', [])


C_LOCALE = {'LC_ALL': 'C', 'LANG': 'C', 'PYTHONUTF8': '0', 'PYTHONCOERCECLOCALE': '0', 'PYTHONIOENCODING': 'utf-8'}


def _description_of(pid):
    """the check's description from tools/checks.json (the source of MANIFEST.json): dimensions added after the RULE text was written"""
    try:
        with open(os.path.join(HERE, 'tools', 'checks.json')) as f:
            return ' || check description: ' + json.load(f)[pid]['text']
    except Exception:  # noqa
        return ''


def run_check(pid, tier, seed, jobs):
    mod = load_mod(pid)
    t0 = time.time()
    units = mod.plan(tier, seed)
    # PYOPT = {tier: n}: the first n units of every distinct kind are served a second time by an interpreter started with -O
    n_opt = getattr(mod, 'PYOPT', {}).get(tier, 0)
    if n_opt:
        seen_kinds = Counter()
        extra = []
        for u in units:
            if isinstance(u, dict) and seen_kinds[u.get('kind')] < n_opt:
                seen_kinds[u.get('kind')] += 1
                # ... and with another string-hash seed (set / dict-of-str ordering), in the plain C locale without UTF-8 mode
                # (file-system and preferred encoding are ASCII there)
                extra.append(dict(u, pyopt=True, hashseed=12345, c_locale=True))
        units = units + extra
    tmp = tempfile.mkdtemp(prefix=f'vmon-{pid}-', dir='/dev/shm' if os.path.isdir('/dev/shm') else None)
    timeout = getattr(mod, 'UNIT_TIMEOUT', {}).get(tier, 1800 if tier == 'quick' else 7200)
    env = dict(os.environ, PYTHONHASHSEED='0', VERIF_REPO=REPO, PYTHONDONTWRITEBYTECODE='1')
    env['PYTHONPATH'] = os.pathsep.join([REPO, HERE])
    pending = list(enumerate(units))
    running = []
    results = [None] * len(units)
    problems = []
    try:
        while pending or running:
            while pending and len(running) < jobs:
                i, unit = pending.pop(0)
                uf = os.path.join(tmp, f'u{i}.json')
                of = os.path.join(tmp, f'o{i}.json')
                with open(uf, 'w') as f:
                    json.dump({'index': i, 'unit': unit}, f)
                # a unit marked 'pyopt' is served by an interpreter started with -O (assert statements compiled out)
                uenv = env
                if isinstance(unit, dict) and unit.get('hashseed') is not None:
                    uenv = dict(env, PYTHONHASHSEED=str(unit['hashseed']))
                if isinstance(unit, dict) and unit.get('c_locale'):
                    uenv = dict(uenv, **C_LOCALE)
                # the worker's output goes to a file: a pipe nobody reads until the end would block a talkative worker for ever
                lf = open(os.path.join(tmp, f'l{i}.txt'), 'wb')
                p = subprocess.Popen(
                    [PY] + (['-O'] if isinstance(unit, dict) and unit.get('pyopt') else []) + ['-m', 'vmon.runner', '--worker', pid, tier, str(seed), uf, of],
                    cwd=HERE, env=uenv, stdout=lf, stderr=subprocess.STDOUT)
                lf.close()
                running.append((i, p, of, time.time()))
            time.sleep(0.02)
            still = []
            for i, p, of, ts in running:
                rc = p.poll()
                if rc is None:
                    if time.time() - ts > timeout:
                        p.kill()
                        p.wait()
                        problems.append(f'unit {i} hit the wall-clock watchdog ({timeout}s)')
                    else:
                        still.append((i, p, of, ts))
                    continue
                try:
                    with open(os.path.join(tmp, f'l{i}.txt'), 'rb') as lf:
                        lf.seek(max(0, os.path.getsize(lf.name) - 4000))
                        out = lf.read().decode('utf8', 'replace')
                    os.unlink(os.path.join(tmp, f'l{i}.txt'))
                except OSError:
                    out = ''
                if rc != 0 or not os.path.exists(of):
                    problems.append(f'unit {i} died rc={rc}: {out[-800:]}')
                else:
                    with open(of) as f:
                        results[i] = json.load(f)
                    os.unlink(of)
            running = still
    finally:
        for i, p, of, ts in running:
            p.kill()
        shutil.rmtree(tmp, ignore_errors=True)

    # ---- merge -------------------------------------------------------------
    counters = Counter()
    evaluations = 0
    distinct = set()
    distinct_extra = 0
    samples = []
    violations = []
    notes = {}
    for r in results:
        if r is None:
            continue
        counters.update(r['counters'])
        evaluations += r['evaluations']
        if r['distinct'] is not None:
            distinct.update(r['distinct'])
        else:
            distinct_extra += r['distinct_n']
        distinct_extra += r['distinct_by_construction']
        for s in r['samples']:
            if len(samples) < MAX_SAMPLES:
                samples.append(s)
        violations.extend(r['violations'])
        for k, v in r['notes'].items():
            if isinstance(v, (int, float)) and isinstance(notes.get(k), (int, float)):
                notes[k] = max(notes[k], v)
            else:
                notes.setdefault(k, v)
        problems.extend(r['inconclusive'])
    # spread samples over units rather than only the first unit
    if len(results) > 1:
        samples = []
        per = max(1, MAX_SAMPLES // max(1, len(results)))
        for r in results:
            if r:
                samples.extend(r['samples'][:per])
        samples = samples[:MAX_SAMPLES]

    required = getattr(mod, 'REQUIRED', [])
    if isinstance(required, dict):
        required = required.get(tier, [])
    for name in required:
        if counters.get(name, 0) == 0:
            problems.append(f'reach counter {name!r} is zero: the deciding monitor never observed it')
    if evaluations == 0:
        problems.append('no case was evaluated')

    # ---- classify violations -------------------------------------------------
    findings = [f for f in load_findings() if f.get('property') == pid]
    open_sigs = {f['signature']: f for f in findings if f.get('status') == 'open'}
    by_sig = {}
    for v in violations:
        by_sig.setdefault(v['sig'], []).append(v)
    new_sigs = []
    known_seen = []
    no_ev = bool(os.environ.get('VERIF_NO_EVIDENCE'))   # development runs against scratch copies (tools/mut.py)
    outdir = os.path.join(HERE, 'out', 'scratch') if no_ev else os.path.join(HERE, 'out')
    for sig, vs in sorted(by_sig.items()):
        if sig in open_sigs:
            known_seen.append(sig)
            print(f'KNOWN-FINDING: property={pid} {sig}: {open_sigs[sig].get("what", "")}')
            continue
        os.makedirs(outdir, exist_ok=True)
        path = os.path.join(outdir, f'{pid}-{hashlib.sha1(sig.encode()).hexdigest()[:10]}.json')
        with open(path, 'w') as f:
            json.dump({'property': pid, 'tier': tier, 'seed': seed, 'sig': sig,
                       'msg': vs[0]['msg'], 'witness': vs[0]['witness'],
                       'others': [v['msg'] for v in vs[1:3]]}, f, indent=1, default=repr)
        new_sigs.append((sig, path, vs[0]['msg']))
    for sig, f in open_sigs.items():
        if sig not in known_seen:
            # listed finding not reproduced by this run: say so (it is not an error)
            print(f'note: listed finding not observed in this run: property={pid} {sig}')

    wall = time.time() - t0
    ex = getattr(mod, 'EXHAUSTIVE', {})
    coverage = dict(
        evaluations=evaluations,
        distinct_nontrivial=len(distinct) + distinct_extra,
        rule=getattr(mod, 'RULE', '') + _description_of(pid),
        samples=samples,
        exhaustive=bool(ex.get(tier, False)) if isinstance(ex, dict) else bool(ex),
        observed=dict(sorted(counters.items())),
        notes=notes,
        units=len(units),
        known_findings_observed=known_seen,
        new_violation_signatures=[s for s, _, _ in new_sigs],
        inconclusive_reasons=problems,
    )
    if isinstance(ex, dict) and ex.get(tier + '_note'):
        coverage['exhaustive_note'] = ex[tier + '_note']
    verdict = 'violated' if new_sigs else ('inconclusive' if problems else 'held')
    coverage['verdict'] = verdict
    evidence = dict(
        property_id=pid, tier=tier, seed=seed,
        level=getattr(mod, 'LEVEL', 'exploration'),
        coverage=coverage,
        assumptions=getattr(mod, 'ASSUMPTIONS', []),
        wall_s=round(wall, 3),
        violations=len(new_sigs),
    )
    if not no_ev:
        os.makedirs(os.path.join(HERE, 'evidence'), exist_ok=True)
        with open(os.path.join(HERE, 'evidence', f'{pid}.json'), 'w') as f:
            json.dump(evidence, f, indent=1, default=repr)

    print(f'{pid} {tier} seed={seed}: {evaluations} cases, {coverage["distinct_nontrivial"]} distinct non-trivial, '
          f'{len(units)} units, {wall:.1f}s -> {verdict}')
    show = {k: v for k, v in sorted(counters.items())}
    print('  observed:', json.dumps(show))
    for sig, path, msg in new_sigs:
        print(f'VIOLATION property={pid} replay={path}')
        print(f'  signature: {sig}\n  {msg}')
    if new_sigs:
        return 1
    if problems:
        shown = set()
        for p in problems:
            key = p[-300:]
            if key in shown:
                continue
            shown.add(key)
            print(f'INCONCLUSIVE property={pid} reason={p}')
        return 2
    return 0


def replay(pid, path):
    mod = load_mod(pid)
    with open(path) as f:
        w = json.load(f)
    wu = (w.get('witness') or {}).get('unit')
    if isinstance(wu, dict) and wu.get('pyopt') and not sys.flags.optimize:
        _prep_path()
        env = dict(os.environ, PYTHONPATH=os.pathsep.join([REPO, HERE]))
        if wu.get('hashseed') is not None:
            env['PYTHONHASHSEED'] = str(wu['hashseed'])
        if wu.get('c_locale'):
            env.update(C_LOCALE)
        return subprocess.call([PY, '-O', '-m', 'vmon.runner', pid, '--replay', path], cwd=HERE, env=env)
    ctx = Ctx(pid, w.get('tier', 'quick'), w.get('seed', 0))
    ctx.replaying = True
    print(f'replaying {path}\n  signature: {w["sig"]}\n  recorded: {w["msg"]}')
    fn = getattr(mod, 'replay', None)
    if fn:
        fn(ctx, w['witness'])
    else:
        mod.run_unit(ctx, w['witness']['unit'])
    if ctx.violations:
        print(f'VIOLATION property={pid} replay={path}')
        return 1
    print('replay: no violation observed on this tree')
    return 0


class _QuietPipe:
    """stdout wrapper: a reader that went away (| head) must not change the verdict"""

    def __init__(self, f):
        self.f = f
        self.dead = False

    def write(self, s):
        if not self.dead:
            try:
                return self.f.write(s)
            except BrokenPipeError:
                self.dead = True
        return len(s)

    def flush(self):
        if not self.dead:
            try:
                self.f.flush()
            except BrokenPipeError:
                self.dead = True

    def __getattr__(self, n):
        return getattr(self.f, n)


def main(argv):
    sys.stdout = _QuietPipe(sys.stdout)
    if argv and argv[0] == '--worker':
        _, pid, tier, seed, uf, of = argv
        worker_main(pid, tier, int(seed), uf, of)
        return 0
    if argv and argv[0] == '--selftest':
        from vmon import selftest
        return selftest.main()
    pid = argv[0].upper()
    tier = os.environ.get('VERIF_TIER', 'quick')
    jobs = None
    rp = None
    i = 1
    while i < len(argv):
        a = argv[i]
        if a in ('quick', 'thorough'):
            tier = a
        elif a == '--tier':
            i += 1
            tier = argv[i]
        elif a == '--jobs':
            i += 1
            jobs = int(argv[i])
        elif a == '--replay':
            i += 1
            rp = argv[i]
        i += 1
    seed = int(os.environ.get('VERIF_SEED', '0') or 0)
    if rp:
        return replay(pid, rp)
    if jobs is None:
        ncpu = os.cpu_count() or 4
        jobs = int(os.environ.get('VERIF_JOBS', min(ncpu, 8) if tier == 'quick' else ncpu))
    return run_check(pid, tier, seed, jobs)


if __name__ == '__main__':
    try:
        rc = main(sys.argv[1:])
    except SystemExit:
        raise
    except BaseException:   # noqa  a broken harness is never a verdict about the code under test
        traceback.print_exc()
        print('INCONCLUSIVE reason=the harness itself failed (see traceback above)')
        rc = 2
    try:
        sys.stdout.flush()
    except Exception:  # noqa
        pass
    os._exit(rc) if getattr(sys.stdout, 'dead', False) else sys.exit(rc)
