"""Deterministic thread scheduler on sys.monitoring LINE events (Python 3.12).

Real threading.Thread objects run the code under test, but only one of them is runnable at
any time.  A LINE callback - events are kept only for code in the files of interest, every
other code object answers DISABLE - counts the statements the running thread starts and, at
the step the schedule names, hands control to another thread and blocks.  A schedule is a
list of (thread index, steps) segments; when it is exhausted the unfinished threads run to
completion in index order.  Runs are deterministic and replayable: the same functions and the
same schedule give the same interleaving.

Limits: statements inside the standard library are not preemption points; interleavings
inside one statement are not explored.
"""
import os
import sys
import threading

_mon = sys.monitoring
TOOL_ID = 4
INF = 1 << 60


class Deadlock(Exception):
    pass


class Scheduler:
    def __init__(self, files=(), dirs=()):
        self.files = {os.path.realpath(f) for f in files}
        self.dirs = tuple(os.path.realpath(d).rstrip(os.sep) + os.sep for d in dirs)
        self._known = {}
        self.installed = False
        # per-run state
        self.sems = []
        self.idents = {}
        self.finished = []
        self.segments = []
        self.seg_i = 0
        self.remaining = 0
        self.current = None
        self.steps = []
        self.switches = 0
        self.switch_points = []
        self.record_points = False
        self.active = False
        self.done = threading.Event()
        self.lock = threading.Lock()

    # -- instrumentation ---------------------------------------------------------
    def _interesting(self, code):
        fn = code.co_filename
        r = self._known.get(fn)
        if r is None:
            rp = os.path.realpath(fn) if not fn.startswith('<') else fn
            r = rp in self.files or rp.startswith(self.dirs)
            self._known[fn] = r
        return r

    def install(self):
        _mon.use_tool_id(TOOL_ID, 'vmon-sched')
        _mon.register_callback(TOOL_ID, _mon.events.LINE, self._on_line)
        _mon.set_events(TOOL_ID, _mon.events.LINE)
        self.installed = True
        return self

    def uninstall(self):
        _mon.set_events(TOOL_ID, 0)
        _mon.register_callback(TOOL_ID, _mon.events.LINE, None)
        _mon.free_tool_id(TOOL_ID)
        self.installed = False

    def _on_line(self, code, line):
        if not self._interesting(code):
            return _mon.DISABLE
        if not self.active:
            return None
        i = self.idents.get(threading.get_ident())
        if i is None or i != self.current:
            return None
        self.steps[i] += 1
        self.remaining -= 1
        if self.remaining <= 0:
            nxt = self._advance(i)
            if nxt is not None and nxt != i:
                if self.record_points:
                    self.switch_points.append((os.path.basename(code.co_filename), line))
                self._handover(i, nxt)

    # -- scheduling -----------------------------------------------------------------
    def _advance(self, cur):
        """Move to the next segment naming an unfinished thread.  Sets current/remaining and returns the thread."""
        while True:
            self.seg_i += 1
            if self.seg_i < len(self.segments):
                t, n = self.segments[self.seg_i]
                if self.finished[t] or n <= 0:
                    continue
                self.remaining = n
                self.current = t
                return t
            # schedule exhausted: lowest unfinished index, to completion
            for t in range(len(self.finished)):
                if not self.finished[t]:
                    self.remaining = INF
                    self.current = t
                    return t
            self.current = None
            return None

    def _handover(self, frm, to):
        self.switches += 1
        self.sems[to].release()
        self.sems[frm].acquire()

    def _thread_main(self, i, fn, results):
        self.idents[threading.get_ident()] = i
        self.sems[i].acquire()
        try:
            results[i] = ('ok', fn())
        except BaseException as e:  # noqa
            results[i] = ('exc', e)
        finally:
            self.finished[i] = True
            self.idents.pop(threading.get_ident(), None)
            nxt = self._advance(i) if self.current == i else None
            if nxt is None:
                if all(self.finished):
                    self.done.set()
            else:
                self.switches += 1
                self.sems[nxt].release()

    def run(self, funcs, schedule, timeout=60.0, record_points=False):
        """funcs: list of zero-argument callables, one per thread.  schedule: [(thread, steps), ...].
        -> (results, info) ; results[i] = ('ok', value) | ('exc', exception)"""
        n = len(funcs)
        self.sems = [threading.Semaphore(0) for _ in range(n)]
        self.idents = {}
        self.finished = [False] * n
        self.segments = [(t, s) for t, s in schedule if 0 <= t < n]
        self.seg_i = -1
        self.steps = [0] * n
        self.switches = 0
        self.switch_points = []
        self.record_points = record_points
        self.done.clear()
        results = [None] * n
        threads = [threading.Thread(target=self._thread_main, args=(i, funcs[i], results), daemon=True) for i in range(n)]
        self.active = True
        try:
            for t in threads:
                t.start()
            first = self._advance(None)
            self.sems[first].release()
            if not self.done.wait(timeout):
                raise Deadlock(f'scheduled run did not finish within the {timeout}s watchdog (schedule {schedule})')
        finally:
            self.active = False
            for t in threads:
                t.join(0.5)
        info = {'steps': list(self.steps), 'switches': self.switches, 'points': list(self.switch_points)}
        return results, info
