#!/bin/sh
n="$1"; prop=${n%%-*}; name=${n#*-}
cd /verif
checks=$(python3 -c "
import json; m=json.load(open('seeded/$n/meta.json')); print(','.join(c for c,v in m['checks'].items() if v['exit']==1) or '$prop')")
tools/seed_eval.py seeded/$n 0 $prop $name --checks $checks 2>&1 | grep "^SEED"
