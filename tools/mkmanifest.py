#!/usr/bin/env python3
"""Regenerates MANIFEST.json from tools/checks.json (one entry per claimed property)."""
import json, os
HERE = os.path.dirname(os.path.dirname(os.path.abspath(__file__)))
checks = json.load(open(os.path.join(HERE, 'tools', 'checks.json')))
props = [json.loads(l)['id'] for l in open(os.path.join(HERE, 'properties.jsonl')) if l.strip()]
m = {
 "version": 1,
 "setup_cmd": "./check --selftest",
 "hooks": {
  "guard": "VALQ7711_OMBOTT_VERIF",
  "enable": "no in-tree hooks are needed: the monitors wrap, trace (sys.monitoring), and audit (sys.addaudithook) the real functions of /repo's working tree from the harness; the variable is reserved and currently read by nothing",
  "baseline_off_cmd": "cd /repo && /venv/bin/python -m pytest -ra -q -p no:cacheprovider --timeout=900 --continue-on-collection-errors",
  "source_commits": [],
  "add_only": True
 },
 "engines": [
  {"name": "vmon", "path": "vmon/", "serves_properties": sorted(checks),
   "kind_free_text": "pure-stdlib runtime-monitoring harness: seeded/enumerated workloads against the real code, oracles = reference models, metamorphic comparisons and invariant monitors at the WSGI / stream / open() / pickle boundaries; deterministic thread scheduler on sys.monitoring"}
 ],
 "checks": [],
 "notes": "Verdicts: exit 0 held (KNOWN-FINDING lines for listed open findings), 1 violation (VIOLATION line + replay file under out/), 2 inconclusive (a deciding monitor observed nothing or a worker died). VERIF_SEED seeds every random choice. See DESIGN.md.",
 "not_applicable": []
}
for pid in props:
    c = checks.get(pid)
    if not c:
        m["not_applicable"].append({"property_id": pid, "reason": "check not built yet in this round (planned in DESIGN.md section 3); not claimed until its monitor exists"})
        continue
    m["checks"].append({
        "property_id": pid,
        "quick_cmd": f"./check {pid} quick",
        "thorough_cmd": f"./check {pid} thorough",
        "evidence_file": f"evidence/{pid}.json",
        "replay_cmd_template": f"./check {pid} --replay {{path}}",
        "engine": "vmon",
        "level_claimed": {"category": "exploration", "text": c["text"], "design_ref": f"DESIGN.md section 3, {pid}"},
        "level_note": c["note"],
        "technique": c["technique"],
    })
json.dump(m, open(os.path.join(HERE, 'MANIFEST.json'), 'w'), indent=1)
print('checks:', len(m['checks']), 'not_applicable:', len(m['not_applicable']))
