#!/usr/bin/env python3
"""Which statements of /repo/ombott do the workloads of the checks reach at all?  (development aid)

    VERIF_COVERAGE=/dev/shm/vcov VERIF_NO_EVIDENCE=1 tools/sweep.sh quick 0 ; tools/coverage_report.py /dev/shm/vcov

Lists, per file, the executable lines no check executed (from the code objects' line tables), grouped by function.
"""
import json, os, sys, glob, types

def code_lines(co, out, name=''):
    for _, _, ln in co.co_lines():
        if ln is not None:
            out.setdefault(ln, name or co.co_name)
    for c in co.co_consts:
        if isinstance(c, types.CodeType):
            code_lines(c, out, (name + '.' if name and name != '<module>' else '') + c.co_name)

def main(d):
    hit = set()
    for f in glob.glob(os.path.join(d, '*.json')):
        for fn, ln in json.load(open(f)):
            hit.add((fn, ln))
    root = os.path.join(os.environ.get('VERIF_REPO', '/repo'), 'ombott')
    tot = miss_tot = 0
    for dp, _, fns in os.walk(root):
        for fn in sorted(fns):
            if not fn.endswith('.py'):
                continue
            p = os.path.join(dp, fn)
            rel = os.path.relpath(p, root)
            lines = {}
            code_lines(compile(open(p).read(), p, 'exec'), lines)
            miss = {}
            for ln, fnname in sorted(lines.items()):
                tot += 1
                if (rel, ln) not in hit:
                    miss_tot += 1
                    miss.setdefault(fnname, []).append(ln)
            if miss:
                print(f'== {rel}: {sum(len(v) for v in miss.values())} of {len(lines)} lines never executed')
                for k, v in miss.items():
                    print(f'   {k}: {v}')
    print(f'TOTAL {tot - miss_tot}/{tot} lines executed')

main(sys.argv[1])
