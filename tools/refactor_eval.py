#!/usr/bin/env python3
"""Run every check against a behaviour-preserving refactoring (false-alarm trial).

    tools/refactor_eval.py <seed-dir> <N> <name> [--tier quick] [--only C01,C02]

<seed-dir>/refN.diff and refN.txt were written by a sub-agent asked for a refactoring that keeps
all observable behaviour identical.  The diff is applied to a scratch copy of /repo's working tree
(under /dev/shm, removed afterwards); the pinned tests and all 20 checks run against the copy.
A check that reports a VIOLATION here is either a false alarm of the check (it demands more than
its property, or depends on an internal detail) or the refactoring is not behaviour-preserving:
each case is examined by hand and recorded.  Filed under /verif/refactorings/<name>/.
"""
import json
import os
import shutil
import subprocess
import sys
import tempfile
import time

HERE = os.path.dirname(os.path.dirname(os.path.abspath(__file__)))
ALL = ['C%02d' % i for i in range(1, 21)]


def main(argv):
    src, n, name = argv[:3]
    tier = 'quick'
    only = ALL
    i = 3
    while i < len(argv):
        if argv[i] == '--tier':
            i += 1
            tier = argv[i]
        elif argv[i] == '--only':
            i += 1
            only = argv[i].split(',')
        i += 1
    diff = os.path.join(src, f'ref{n}.diff') if not os.path.exists(os.path.join(src, 'patch.diff')) else os.path.join(src, 'patch.diff')
    desc_p = os.path.join(src, f'ref{n}.txt') if not os.path.exists(os.path.join(src, 'desc.txt')) else os.path.join(src, 'desc.txt')
    desc = open(desc_p).read() if os.path.exists(desc_p) else ''
    tmp = tempfile.mkdtemp(prefix='vref-', dir='/dev/shm')
    try:
        keepdiff = os.path.join(tmp, 'patch.diff')
        shutil.copy(diff, keepdiff)
        bad = os.path.join(tmp, 'repo')
        shutil.copytree('/repo', bad, ignore=shutil.ignore_patterns('.git', '__pycache__', '*.egg-info', '_seed'))
        r = subprocess.run(['patch', '-p1', '-s', '-i', keepdiff], cwd=bad, capture_output=True, text=True)
        if r.returncode != 0:
            print('REF: patch does not apply', r.stdout, r.stderr)
            return 2
        env = dict(os.environ, PYTHONDONTWRITEBYTECODE='1')
        t = subprocess.run(['/venv/bin/python', '-m', 'pytest', '-q', '-p', 'no:cacheprovider', '--timeout=120'], cwd=bad, env=dict(env, PYTHONPATH=bad),
                           capture_output=True, text=True)
        tests = t.stdout.strip().splitlines()[-1] if t.stdout.strip() else 'no output'
        results = {}
        loud = []
        for c in only:
            t0 = time.time()
            r = subprocess.run([os.path.join(HERE, 'check'), c, tier], env=dict(env, VERIF_REPO=bad, VERIF_NO_EVIDENCE='1'), capture_output=True, text=True)
            sigs = [ln.strip()[len('signature: '):] for ln in r.stdout.splitlines() if ln.strip().startswith('signature:')]
            inc = [ln for ln in r.stdout.splitlines() if ln.startswith('INCONCLUSIVE')][:2]
            results[c] = {'exit': r.returncode, 'signatures': sigs[:6], 'inconclusive': inc, 'wall_s': round(time.time() - t0, 1)}
            if r.returncode != 0:
                loud.append(f'{c}:rc={r.returncode} {"; ".join(sigs[:3])} {" ".join(inc)[:200]}')
        print(f'REF {name}: tests={tests} | ' + ('all 20 checks silent' if not loud and only == ALL else ('silent' if not loud else ' | '.join(loud))))
        out = os.path.join(HERE, 'refactorings', name)
        os.makedirs(out, exist_ok=True)
        shutil.copy(keepdiff, os.path.join(out, 'patch.diff'))
        with open(os.path.join(out, 'desc.txt'), 'w') as f:
            f.write(desc)
        rp = os.path.join(out, 'result.json')
        old = json.load(open(rp)) if os.path.exists(rp) else {}
        old.setdefault('checks', {}).update(results)
        old.update({'pinned_tests': tests, 'tier': tier})
        json.dump(old, open(rp, 'w'), indent=1)
    finally:
        shutil.rmtree(tmp, ignore_errors=True)
    return 0


if __name__ == '__main__':
    sys.exit(main(sys.argv[1:]))
