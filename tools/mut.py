#!/usr/bin/env python3
"""Mutation sanity helper (development tool, not a registered check).

    tools/mut.py <CHECK-ID>[,<ID>...] <file-relative-to-repo> <old> <new> [--tier quick|thorough] [--no-tests] [--count N]
    tools/mut.py <CHECK-ID>[,..] --patch <file.diff>

Copies /repo's working tree to a scratch directory under /dev/shm, applies the edit
there (exact string replacement, must match), runs the pinned test suite on the copy
and the named checks with VERIF_REPO pointing at the copy, prints a one-line summary
and removes the copy.  Nothing is written to /repo.
"""
import os
import shutil
import subprocess
import sys
import tempfile

HERE = os.path.dirname(os.path.dirname(os.path.abspath(__file__)))


def main(argv):
    ids = argv[0].split(',')
    tier = 'quick'
    tests = True
    count = 1
    patch = None
    pos = []
    i = 1
    while i < len(argv):
        a = argv[i]
        if a == '--tier':
            i += 1
            tier = argv[i]
        elif a == '--no-tests':
            tests = False
        elif a == '--count':
            i += 1
            count = int(argv[i])
        elif a == '--patch':
            i += 1
            patch = argv[i]
        else:
            pos.append(a)
        i += 1
    tmp = tempfile.mkdtemp(prefix='vmut-', dir='/dev/shm')
    try:
        dst = os.path.join(tmp, 'repo')
        shutil.copytree('/repo', dst, ignore=shutil.ignore_patterns('.git', '__pycache__', '*.egg-info'))
        if patch:
            subprocess.run(['patch', '-p1', '-s', '-i', os.path.abspath(patch)], cwd=dst, check=True)
        else:
            f, old, new = pos
            p = os.path.join(dst, f)
            s = open(p).read()
            if s.count(old) < 1:
                print(f'MUT: pattern not found in {f}')
                return 2
            s = s.replace(old, new, count)
            open(p, 'w').write(s)
        env = dict(os.environ, PYTHONDONTWRITEBYTECODE='1')
        tres = 'skipped'
        if tests:
            r = subprocess.run(['/venv/bin/python', '-m', 'pytest', '-q', '-x', '-p', 'no:cacheprovider', '--timeout=60'],
                               cwd=dst, env=dict(env, PYTHONPATH=dst), capture_output=True, text=True)
            tres = 'pass' if r.returncode == 0 else 'FAIL(' + r.stdout.strip().splitlines()[-1][:80] + ')'
        out = []
        for pid in ids:
            r = subprocess.run([os.path.join(HERE, 'check'), pid, tier], env=dict(env, VERIF_REPO=dst, VERIF_NO_EVIDENCE='1'),
                               capture_output=True, text=True)
            sigs = [ln.strip() for ln in r.stdout.splitlines() if ln.strip().startswith("signature:")]
            if r.returncode == 1 and not any(ln.startswith("VIOLATION property=") for ln in r.stdout.splitlines()):
                sigs = ["HARNESS-FAILURE(no VIOLATION line)"]
            out.append(f'{pid}:rc={r.returncode}' + (' ' + '; '.join(sigs[:4]) if sigs else ''))
            if r.returncode == 2:
                out.append(' '.join(ln for ln in r.stdout.splitlines() if ln.startswith('INCONCLUSIVE'))[:400])
        print(f'MUT tests={tres} | ' + ' | '.join(out))
    finally:
        shutil.rmtree(tmp, ignore_errors=True)
    return 0


if __name__ == '__main__':
    sys.exit(main(sys.argv[1:]))
