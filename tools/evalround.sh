#!/bin/sh
# tools/evalround.sh <suffix> [ID ...]   evaluate the two changes of every finished worktree /tmp/wt-<ID><suffix> (names derived from the meta files)
suf="$1"; shift
cd "$(dirname "$0")/.."
ids="$@"; [ -z "$ids" ] && ids="C01 C02 C03 C04 C05 C06 C07 C08 C09 C10 C11 C12 C13 C14 C15 C16 C17 C18 C19 C20"
for id in $ids; do
  d=/tmp/wt-$id$suf/_seed
  for n in 1 2; do
    [ -f $d/change$n.diff ] && [ -f $d/demo$n.py ] || continue
    name=$(python3 - "$d/meta$n.txt" <<'P'
import re, sys
try:
    t = open(sys.argv[1]).read()
except OSError:
    t = ''
t = re.sub(r'(?i)^\s*(change\s*\d+\s*[:(\-–—]*|style[^:]*:)', '', t.strip())
words = re.findall(r'[A-Za-z][A-Za-z0-9_]+', t.lower())
stop = {'the', 'a', 'an', 'of', 'in', 'to', 'is', 'and', 'for', 'that', 'it', 'on', 'with', 'by', 'as', 'at', 'change', 'style', 'py', 'ombott', 'this', 'its', 'be', 'now', 'are', 'was', 'from', 'which'}
w = [x for x in words if x not in stop][:7]
print('-'.join(w) or 'unnamed')
P
)
    [ -d seeded/$id-$name ] && { echo "already filed: $id-$name"; continue; }
    tools/seed_eval.py $d $n $id $name 2>&1 | grep "^SEED" | cut -c1-300
  done
done
