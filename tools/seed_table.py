#!/usr/bin/env python3
"""Writes /verif/seeded/README.md from the meta.json files (which check catches which seeded change)."""
import json, os, glob
HERE = os.path.dirname(os.path.dirname(os.path.abspath(__file__)))
rows = []
for d in sorted(glob.glob(os.path.join(HERE, 'seeded', '*', 'meta.json'))):
    m = json.load(open(d))
    name = os.path.basename(os.path.dirname(d))
    need = ' '.join(m.get('what_it_needs_to_manifest', '').split())
    caught = [f"{c} {v['tier']}: " + ', '.join(v['signatures'][:2]) for c, v in m['checks'].items() if v['exit'] == 1]
    missed = [f"{c} {v['tier']}" for c, v in m['checks'].items() if v['exit'] != 1]
    rows.append((name, m['property'], need[:260] + ('…' if len(need) > 260 else ''), '; '.join(caught) or '—', ', '.join(missed) or '—'))
with open(os.path.join(HERE, 'seeded', 'README.md'), 'w') as f:
    f.write('# Seeded breaking changes\n\nEach directory holds a change to valq7711/ombott written by an independent sub-agent that was given only the text of\n'
            'one property and a scratch worktree (nothing from /verif): `patch.diff` (apply with `git -C /repo apply`), `demo.py` (exits 1 with the\n'
            'change, 0 without; run with `PYTHONPATH=<tree>`), `meta.json` (what it needs to manifest, what was run to confirm it, which checks fire).\n'
            'All of them pass the 82 pinned tests.  `tools/seed_eval.py seeded/<dir> 0 <PROP> <name>` re-evaluates one on scratch copies.\n\n'
            f'{sum(1 for r in rows if r[3] != "—")} of {len(rows)} are caught by the quick tier of the listed check.\n\n'
            '| change | property | needs | caught by (signatures) | silent checks also run |\n|---|---|---|---|---|\n')
    for r in rows:
        f.write('| ' + ' | '.join(x.replace('|', '\\|') for x in r) + ' |\n')
print(len(rows), 'seeded changes;', sum(1 for r in rows if r[3] == '—'), 'not caught')
