#!/bin/sh
# tools/sweep.sh <tier> <seed>...   runs every check of MANIFEST at the tier for each seed; prints one line per run
# (development tool: evidence is written as usual, so finish with seed 0 runs before committing evidence)
tier="$1"; shift
cd "$(dirname "$0")/.."
for seed in "$@"; do
  for id in C01 C02 C03 C04 C05 C06 C07 C08 C09 C10 C11 C12 C13 C14 C15 C16 C17 C18 C19 C20; do
    out=$(VERIF_SEED=$seed ./check $id $tier 2>&1); rc=$?
    line=$(echo "$out" | grep -E "^$id $tier" | head -1)
    echo "seed=$seed rc=$rc $line"
    if [ $rc -ne 0 ]; then echo "$out" | grep -E "VIOLATION|signature|INCONCLUSIVE" | head -8; fi
  done
done
