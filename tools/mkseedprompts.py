#!/usr/bin/env python3
"""Prepare one round of independently written breaking changes.

    tools/mkseedprompts.py <suffix> <ID>...        e.g.  tools/mkseedprompts.py u C01 C02

For each property: creates the scratch worktree /tmp/wt-<ID><suffix> of /repo (detached, removed again
after evaluation with `git -C /repo worktree remove --force`) and writes /tmp/agent-<ID><suffix>.txt,
the complete prompt for a fresh sub-agent.  The prompt holds the property text only (title, statement,
quantifier, anchored files), the names of the changes already filed for that property (so that new
mechanisms are looked for) and the style asked for in this round - nothing else from /verif.
"""
import json
import os
import subprocess
import sys

HERE = os.path.dirname(os.path.dirname(os.path.abspath(__file__)))

STYLES = {
    'environment': 'the violation should depend on the environment the server runs in - time zone, locale, current directory, '
                   'PYTHONHASHSEED / dict or set ordering, recursion limit, an environment variable, the platform\'s path separator, '
                   'the presence or absence of an optional WSGI environ key (wsgi.file_wrapper, wsgi.errors, SERVER_PROTOCOL, HTTP_HOST, ...) - '
                   'so that a harness running with one default environment does not see it',
    'entry_point': 'the violation should show only through a lesser-used public entry point, alias or calling convention '
                   '(an alias property, a decorator used with and without arguments, keyword vs positional use, a class used directly instead of '
                   'through the application object, an accessor read in an unusual order), while the common way of doing the same thing stays correct',
    'history': 'the violation should need a history of at least three steps on the same objects (e.g. do X, then Y, then Z; or the N-th '
               'occurrence of something), with every shorter history behaving correctly',
    'boundary': 'the violation should be a boundary-arithmetic slip (comparison direction, off-by-one, a length taken before instead of after '
                'a transformation) that only shows for an exact coincidence of sizes, offsets or counts',
    'cleanup': 'the violation should sit in an error-handling or clean-up path (an exception caught more widely or narrowly than before, '
               'a finally block, an early return, a resource closed too early or never), so that only a failing or interrupted operation shows it',
    'state': 'the violation should come from state that outlives its scope: a mutable default argument, a class attribute that should be '
             'per instance, a module-level helper object, an iterator or generator consumed twice, a closure capturing a loop variable',
}
STYLES['size'] = ('the violation should depend on the size or count of something crossing a threshold that ordinary use never reaches - a value longer than '
                  'N characters, more than N headers / fields / parameters / routes / cookies, a body or file over some internal buffer size, a nesting depth - '
                  'with everything below the threshold behaving correctly')
STYLES['interaction'] = ('the violation should need two features of the framework used together (each of them working alone), e.g. HEAD with a ranged file and a '
                         'server file wrapper, chunked framing with a form and a size limit, a signed cookie on a copied or redirecting response, hooks together '
                         'with an error handler that raises, a mount point together with a route hook')
STYLES['encoding'] = ('the violation should need text outside plain ASCII in a place where it is legal but unusual - a non-ASCII or percent-encoded character in a header '
                      'value, cookie name or value, boundary, file name, field name, host, path segment or query key; or bytes that are not valid UTF-8 where the '
                      'framework has to decide what to do with them')
STYLES['types'] = ('the violation should need an argument or return value of an unusual but supported type: bytes / bytearray / memoryview instead of str, a str or int '
                   'subclass, a tuple or iterator instead of a list, a generator, an object with only part of the file protocol, a mapping that is not a dict, '
                   'None or an empty container where a value is optional')
STYLES['numeric'] = ('the violation should need a numeric edge: zero, one, a negative number, a value that is exactly a power of two or a buffer size, a number with '
                     'leading zeros or a sign, a float where an int is usual, a very large number')
STYLES['optimisation'] = ('the change should look like a performance optimisation - a cache or memo, a precomputed table, a fast path for the common case, avoiding a copy, '
                          'lazy evaluation, a cheaper stdlib call - that is right for ordinary use and wrong in a corner the optimisation overlooked')
STYLES['hardening'] = ('the change should look like security hardening or stricter input validation - an extra check, a normalisation step, a new limit, a sanitising '
                       'replace() - that either breaks the property for input that is legal, or moves the hole somewhere else')
STYLES['modernisation'] = ('the change should look like a modernisation / clean-up commit - a deprecated call replaced by its successor, % formatting by f-strings, os.path by pathlib, '
                           'a loop by a comprehension or a stdlib helper, a hand-written parser by a regex or the other way round - where the replacement is subtly not equivalent')
STYLES['feature'] = ('the change should look like a small new feature or option - a new keyword argument with a default, a new config key, support for one more argument type, '
                     'a convenience alias - whose default path is almost, but not exactly, what it was before')
STYLES['exception_safety'] = ('the violation should be one of exception safety: an operation that raises half-way (a refused value, a failing callback, a parse error, a full disk) '
                              'leaves an object half-updated, and it is the *next*, perfectly ordinary use of that object that goes wrong')
STYLES['ordering'] = ('the violation should come from two steps done in the wrong order or at the wrong moment: validation after the mutation instead of before, a cache filled before the value is final, '
                      'a hook or callback run one step too early or too late, a lookup done before a normalisation that used to precede it, first-wins turned into last-wins')
STYLES['sentinel'] = ('the violation should come from confusing two "nothing" values or a changed default: None vs empty string vs 0 vs a missing key vs -1, `is None` turned into a truthiness test or the '
                      'other way round, `dict.get(k) or default`, an empty list that is falsy, a default argument evaluated once')
STYLES['sibling_slip'] = ('the violation should be a copy-and-paste slip between two sibling branches or two similarly named things: the right operation applied to the wrong variable / attribute / key '
                          '(request vs response, query vs forms, name vs filename, start vs end, GET vs HEAD branch), in a branch ordinary use rarely takes')
ROUNDS = {
    'u': ['environment', 'entry_point', 'history', 'boundary'],
    'v': ['cleanup', 'state', 'size', 'history'],
    'w': ['interaction', 'encoding', 'types', 'numeric'],
    # the same styles shifted by two, so that every property meets the two it has not had
    'x': ['history', 'boundary', 'environment', 'entry_point'],
    'y': ['size', 'history', 'cleanup', 'state'],
    'z': ['types', 'numeric', 'interaction', 'encoding'],
    # commits in disguise
    'q': ['optimisation', 'hardening', 'modernisation', 'feature'],
    'p': ['exception_safety', 'ordering', 'sentinel', 'sibling_slip'],
}

TEMPLATE = open(os.path.join(HERE, 'tools', 'seed_agent_prompt.txt')).read()


def main(argv):
    suffix, ids = argv[0], argv[1:]
    props = {}
    for ln in open(os.path.join(HERE, 'properties.jsonl')):
        d = json.loads(ln)
        props[d['id']] = d
    styles = ROUNDS[suffix]
    for k, pid in enumerate(ids):
        p = props[pid]
        wt = f'/tmp/wt-{pid}{suffix}'
        if not os.path.exists(wt):
            subprocess.run(['git', '-C', '/repo', 'worktree', 'add', '--detach', '-q', wt], check=True)
        used = sorted(d[len(pid) + 1:].replace('-', ' ') for d in os.listdir(os.path.join(HERE, 'seeded')) if d.startswith(pid + '-'))
        s1, s2 = styles[k % len(styles)], styles[(k + 1) % len(styles)]
        text = (f"{pid}: {p['title']}\n\nStatement: {p['statement']}\n\nQuantified over: {p['quantifier']['text']}\n\n"
                f"Code the property is anchored in: {', '.join(p['anchors']['files'])}\n\n"
                f"Ideas that have been used already - do NOT repeat them, find different mechanisms in different places of the code: {'; '.join(used)}.\n\n"
                f"Style for this round: for change 1, {STYLES[s1]}. For change 2, {STYLES[s2]}. "
                f"If a style really cannot be made to fit this property, say so in the meta file and use another realistic mechanism instead.\n")
        out = TEMPLATE.replace('{WT}', wt).replace('{PROP}', text)
        with open(f'/tmp/agent-{pid}{suffix}.txt', 'w') as f:
            f.write(out)
        print(f'/tmp/agent-{pid}{suffix}.txt  worktree {wt}  styles {s1}, {s2}')


if __name__ == '__main__':
    main(sys.argv[1:])
