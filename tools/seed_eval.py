#!/usr/bin/env python3
"""Evaluate one independently written breaking change and file it under /verif/seeded/.

    tools/seed_eval.py <seed-dir> <N> <PROPERTY> <name> [--checks C01,C02] [--tier quick|thorough]
    tools/seed_eval.py seeded/<PROPERTY>-<name> 0 <PROPERTY> <name> [--checks ..]      (re-evaluate a filed change)

<seed-dir>/changeN.diff, demoN.py, metaN.txt were written by a sub-agent in its own scratch
worktree from the property text alone.  This tool confirms on scratch copies of /repo's
working tree (under /dev/shm, removed afterwards) that
   * the demonstration exits 0 on the unchanged tree and 1 with the change,
   * the pinned test suite passes with the change,
then runs the named checks (default: the property's own) against the changed copy and
records everything in /verif/seeded/<PROPERTY>-<name>/{patch.diff, demo.py, meta.json}.
Nothing is written to /repo.
"""
import json
import os
import shutil
import subprocess
import sys
import tempfile
import time

HERE = os.path.dirname(os.path.dirname(os.path.abspath(__file__)))


def sh(cmd, **kw):
    return subprocess.run(cmd, capture_output=True, text=True, **kw)


def main(argv):
    src, n, prop, name = argv[:4]
    checks = [prop]
    tier = 'quick'
    i = 4
    while i < len(argv):
        if argv[i] == '--checks':
            i += 1
            checks = argv[i].split(',')
        elif argv[i] == '--tier':
            i += 1
            tier = argv[i]
        i += 1
    diff = os.path.join(src, f'change{n}.diff')
    demo = os.path.join(src, f'demo{n}.py')
    meta_txt = open(os.path.join(src, f'meta{n}.txt')).read() if os.path.exists(os.path.join(src, f'meta{n}.txt')) else ''
    if os.path.exists(os.path.join(src, 'patch.diff')):
        # re-evaluation of a change already filed under /verif/seeded/
        import tempfile as _t
        keep = _t.mkdtemp(prefix='vseed-src-', dir='/dev/shm')
        for f in ('patch.diff', 'demo.py'):
            shutil.copy(os.path.join(src, f), keep)
        diff, demo = os.path.join(keep, 'patch.diff'), os.path.join(keep, 'demo.py')
        meta_txt = json.load(open(os.path.join(src, 'meta.json'))).get('what_it_needs_to_manifest', '')
    tmp = tempfile.mkdtemp(prefix='vseed-', dir='/dev/shm')
    ran = []
    try:
        clean = os.path.join(tmp, 'clean')
        bad = os.path.join(tmp, 'bad')
        ign = shutil.ignore_patterns('.git', '__pycache__', '*.egg-info', '_seed')
        shutil.copytree('/repo', clean, ignore=ign)
        shutil.copytree('/repo', bad, ignore=ign)
        r = sh(['patch', '-p1', '-s', '-i', os.path.abspath(diff)], cwd=bad)
        if r.returncode != 0:
            print('SEED: patch does not apply:', r.stdout, r.stderr)
            return 2
        env = dict(os.environ, PYTHONDONTWRITEBYTECODE='1')
        d0 = sh(['/venv/bin/python', os.path.abspath(demo)], cwd=clean, env=dict(env, PYTHONPATH=clean), timeout=600)
        d1 = sh(['/venv/bin/python', os.path.abspath(demo)], cwd=bad, env=dict(env, PYTHONPATH=bad), timeout=600)
        ran.append(f'demo on unchanged copy: exit {d0.returncode}; demo on changed copy: exit {d1.returncode}')
        t = sh(['/venv/bin/python', '-m', 'pytest', '-q', '-p', 'no:cacheprovider', '--timeout=120'], cwd=bad, env=dict(env, PYTHONPATH=bad))
        tests_ok = t.returncode == 0
        ran.append('pinned tests on changed copy: ' + t.stdout.strip().splitlines()[-1])
        confirmed = d0.returncode == 0 and d1.returncode == 1 and tests_ok
        results = {}
        for c in checks:
            t0 = time.time()
            r = sh([os.path.join(HERE, 'check'), c, tier], env=dict(env, VERIF_REPO=bad, VERIF_NO_EVIDENCE='1'))
            sigs = [ln.strip()[len('signature: '):] for ln in r.stdout.splitlines() if ln.strip().startswith('signature:')]
            rc = r.returncode
            if rc == 1 and not any(ln.startswith('VIOLATION property=') for ln in r.stdout.splitlines()):
                rc = 3      # exit 1 without a VIOLATION line is a harness failure, not a detection
            results[c] = {'tier': tier, 'exit': rc, 'signatures': sigs[:8], 'wall_s': round(time.time() - t0, 1)}
            ran.append(f'VERIF_REPO=<changed copy> ./check {c} {tier}: exit {rc}')
            if rc == 2:
                results[c]['inconclusive'] = [ln for ln in r.stdout.splitlines() if ln.startswith('INCONCLUSIVE')][:3]
        print(f'SEED {prop}-{name}: confirmed={confirmed} demo clean/changed={d0.returncode}/{d1.returncode} tests={"pass" if tests_ok else "FAIL"} | ' +
              ' | '.join(f'{c}:rc={v["exit"]} {"; ".join(v["signatures"][:3])}' for c, v in results.items()))
        if d1.returncode == 1:
            print('   demo says:', (d1.stdout.strip().splitlines() or [''])[-1][:200])
        if not confirmed:
            print('   NOT KEPT (confirmation failed)')
            return 1
        out = os.path.join(HERE, 'seeded', f'{prop}-{name}')
        os.makedirs(out, exist_ok=True)
        shutil.copy(diff, os.path.join(out, 'patch.diff'))
        shutil.copy(demo, os.path.join(out, 'demo.py'))
        mp = os.path.join(out, 'meta.json')
        meta = json.load(open(mp)) if os.path.exists(mp) else {}
        meta.update({
            'property': prop,
            'written_by': 'independent sub-agent given only the property text and a scratch worktree',
            'what_it_needs_to_manifest': meta_txt.strip(),
            'confirmed': {'demo_exit_unchanged': d0.returncode, 'demo_exit_changed': d1.returncode, 'pinned_tests_pass_with_change': tests_ok,
                          'demo_output_changed': d1.stdout.strip().splitlines()[-3:]},
            'what_i_ran': ran,
        })
        meta.setdefault('checks', {}).update(results)
        meta['caught'] = any(v['exit'] == 1 for v in meta['checks'].values())
        json.dump(meta, open(mp, 'w'), indent=1, ensure_ascii=False)
    finally:
        shutil.rmtree(tmp, ignore_errors=True)
        if 'keep' in locals():
            shutil.rmtree(keep, ignore_errors=True)
    return 0


if __name__ == '__main__':
    sys.exit(main(sys.argv[1:]))
